#!/bin/bash
# usage: imp.sh C13   -> import variants C and D, print summary
cd /verif
for v in ${2:-C} ${3:-D}; do tools/addseed.py $1 $v >/dev/null 2>&1; done
/venv/bin/python - $1 ${2:-C} ${3:-D} <<'PY'
import json,sys
for v in sys.argv[2:4]:
    try:
        m=json.load(open('/verif/seeded/%s-%s/meta.json'%(sys.argv[1],v)))
    except Exception as e:
        print(v,'no meta',e); continue
    print(sys.argv[1],v,'confirmed',m.get('confirmed'),'applies',m['applies_to_repo_head'],'w/o',m.get('demo_without_change',{}).get('exit'),'with',m.get('demo_with_change',{}).get('exit'),m.get('related_tests_with_change','')[:40],'|',m.get('check_result','')[:300])
PY
