#!/venv/bin/python
"""Re-runs the quick check of every kept seeded change against a scratch copy of /repo with the patch and
records the outcome in seeded/<id>/meta.json (caught_by, check_result)."""
import json
import os
import subprocess
import sys

HERE = os.path.dirname(os.path.dirname(os.path.abspath(__file__)))
extra = {'C06-N': ['C10', 'C11'], 'C13-B': ['C13', 'C16'], 'C05-B': ['C17'], 'C17-B': ['C17'], 'C02-A': ['C02', 'C03', 'C05'], 'C05': ['C05', 'C10'],
         'C10-B': ['C10', 'C05'], 'C12-E': ['C12', 'C16'], 'C18-F': ['C18', 'C12'], 'C11-F': ['C11', 'C10'],
         # round 5: the eight "grace period measured with the wall clock" variants break their nominal property only
         # by never finishing the operation; the owners of that are C02 / C03 / C05
         'C01-H': ['C01', 'C03', 'C05'], 'C10-H': ['C10', 'C05'], 'C15-H': ['C15', 'C02'], 'C14-H': ['C14', 'C03'],
         'C08-H': ['C08', 'C02'], 'C18-G': ['C18', 'C15'], 'C04-H': ['C04', 'C13'],
         # round 6: C01-J is the mechanism of C04-G (a reaped worker kept on the books), C03-J never finishes a stop
         'C01-J': ['C01', 'C04'], 'C03-J': ['C03', 'C05'],
         # round 8: a refused set that changes the target is C11's (and C10's) business -- C01 reads the target back from
         # the daemon; a quit that is not serialized is C10's and leaves workers behind for C08; a redirector handler that
         # keeps writing to a replaced stream is C17's
         'C01-L': ['C01', 'C11'], 'C02-L': ['C02', 'C10'], 'C20-L': ['C20', 'C17'],
         # round 9: C01-M is the mechanism of C04-K (a child lost at spawn: C04's books); C02-M and C05-M show on a real
         # circusd that is signalled (C08's cases); C04-M lets requests in during the periodic check (C10's monitor)
         'C01-M': ['C01', 'C04'], 'C02-M': ['C02', 'C08'], 'C05-M': ['C05', 'C08'], 'C04-M': ['C04', 'C10'],
         # a hooks-only edit of the file: what reloadconfig makes of it is C12's comparison with a fresh start
         'C14-M': ['C14', 'C12']}
rows = []
import concurrent.futures as cf


def one(name):
    mp = os.path.join(HERE, 'seeded', name, 'meta.json')
    m = json.load(open(mp))
    if str(m.get('status', '')).startswith(('obsolete', 'rejected')):
        return (name, 'obsolete', '')
    props = extra.get(name, [m['breaks']])
    out = subprocess.run([os.path.join(HERE, 'tools', 'selftest.py'), os.path.join(HERE, 'seeded', name, 'patch.diff')] + props,
                         capture_output=True, text=True, cwd=HERE).stdout
    caught = []
    lines = [l for l in out.splitlines() if l[:6] in ('CAUGHT', 'MISSED', 'INCONC', 'PATCH-')]
    for l in lines:
        if l.startswith('CAUGHT'):
            caught.append(l.split()[1])
    m['caught_by'] = caught
    m['check_result'] = ' || '.join(l[:300] for l in lines)
    json.dump(m, open(mp, 'w'), indent=1)
    return (name, 'caught by ' + ','.join(caught) if caught else 'MISSED', lines[0][:140] if lines else out[-200:])


only = sys.argv[1:]
names = [n for n in sorted(os.listdir(os.path.join(HERE, 'seeded'))) if not only or any(n.startswith(o) for o in only)]
with cf.ThreadPoolExecutor(max_workers=int(os.environ.get('SEEDSTATUS_JOBS', '2'))) as ex:
    for row in ex.map(one, names):
        rows.append(row)
        print(row, flush=True)
print()
print('kept and caught: %d, missed: %d, obsolete: %d' % (sum(1 for r in rows if r[1].startswith('caught')),
                                                          sum(1 for r in rows if r[1] == 'MISSED'),
                                                          sum(1 for r in rows if r[1] == 'obsolete')))
