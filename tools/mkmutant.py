#!/venv/bin/python
"""tools/mkmutant.py <name> <file-relative-to-/repo> <expect: C02,C04> <<< python dict with old/new
usage: tools/mkmutant.py NAME circus/watcher.py C02,C04 'OLD TEXT' 'NEW TEXT' [count]"""
import difflib, os, sys
HERE = os.path.dirname(os.path.dirname(os.path.abspath(__file__)))
name, rel, expect, old, new = sys.argv[1:6]
src = open(os.path.join('/repo', rel)).read()
old = old.encode().decode('unicode_escape'); new = new.encode().decode('unicode_escape')
assert src.count(old) >= 1, 'old text not found'
n = int(sys.argv[6]) if len(sys.argv) > 6 else 1
assert src.count(old) == 1 or len(sys.argv) > 6, 'old text ambiguous (%d)' % src.count(old)
dst = src.replace(old, new, n)
diff = ''.join(difflib.unified_diff(src.splitlines(True), dst.splitlines(True), 'a/' + rel, 'b/' + rel))
path = os.path.join(HERE, 'mutants', name + '.patch')
with open(path, 'w') as f:
    f.write('# expect: %s\n' % expect.replace(',', ' '))
    f.write(diff)
print(path)
