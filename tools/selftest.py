#!/venv/bin/python
"""Sensitivity audit (developer tool, not in MANIFEST).

  tools/selftest.py                      run every mutants/*.patch and seeded/*/patch.diff against the
                                         checks named in their header / meta.json
  tools/selftest.py mutants/x.patch C02  run one patch against given checks

Each patch is applied to a scratch copy of /repo/circus (outside /repo and /verif), the check is
run with CIRCUS_REPO pointing at the copy, exit 1 + VIOLATION is expected, the copy is deleted.
A patch file may start with lines `# expect: C02 C04` naming the properties it must break.
"""
import glob
import json
import os
import shutil
import subprocess
import sys
import tempfile
import concurrent.futures as cf

HERE = os.path.dirname(os.path.dirname(os.path.abspath(__file__)))


def expected(patch):
    if os.path.basename(patch) == 'patch.diff':
        meta = os.path.join(os.path.dirname(patch), 'meta.json')
        if os.path.exists(meta):
            m = json.load(open(meta))
            if str(m.get('status', '')).startswith(('obsolete', 'rejected')):
                return []
            e = m.get('caught_by') or m.get('breaks')
            return e if isinstance(e, list) else [e]
    out = []
    for line in open(patch):
        if line.startswith('# expect:'):
            out += line.split(':', 1)[1].split()
    return out


def run_one(patch, props, tier='quick'):
    scratch = tempfile.mkdtemp(prefix='circus-mut-')
    try:
        shutil.copytree('/repo/circus', os.path.join(scratch, 'circus'))
        for extra in ('docs',):
            pass
        r = subprocess.run(['patch', '-p1', '-s', '-d', scratch, '-i', os.path.abspath(patch)],
                           capture_output=True, text=True)
        if r.returncode != 0:
            return [(patch, p, 'PATCH-FAILED', r.stdout + r.stderr) for p in props]
        res = []
        env = dict(os.environ, CIRCUS_REPO=scratch, VERIF_OUT_DIR=os.path.join(scratch, 'out'))
        for p in props:
            c = subprocess.run([os.path.join(HERE, 'check'), p, '--tier', tier], cwd=HERE, env=env,
                               capture_output=True, text=True)
            keys = [l.strip() for l in c.stdout.splitlines() if l.strip().startswith('key=')]
            verdict = {0: 'MISSED', 1: 'CAUGHT', 2: 'INCONCLUSIVE'}.get(c.returncode, 'rc=%d' % c.returncode)
            res.append((patch, p, verdict, '; '.join(k[:160] for k in keys[:3]) or c.stdout[-300:]))
        return res
    finally:
        shutil.rmtree(scratch, ignore_errors=True)


def main():
    args = sys.argv[1:]
    tier = 'quick'
    if '--thorough' in args:
        args.remove('--thorough')
        tier = 'thorough'
    jobs = []
    mutants_only = '--mutants-only' in args
    if mutants_only:
        args.remove('--mutants-only')
    if args:
        patch = args[0]
        jobs.append((patch, args[1:] or expected(patch)))
    else:
        for patch in sorted(glob.glob(os.path.join(HERE, 'mutants', '*.patch')) +
                            ([] if mutants_only else glob.glob(os.path.join(HERE, 'seeded', '*', 'patch.diff')))):
            if expected(patch):
                jobs.append((patch, expected(patch)))
    bad = 0
    with cf.ThreadPoolExecutor(max_workers=int(os.environ.get('SELFTEST_JOBS', '2'))) as ex:
        for res in ex.map(lambda j: run_one(j[0], j[1], tier), jobs):
            for patch, p, verdict, info in res:
                print('%-12s %-4s %s   %s' % (verdict, p, os.path.relpath(patch, HERE), info))
                if verdict != 'CAUGHT':
                    bad += 1
    sys.exit(1 if bad else 0)


if __name__ == '__main__':
    main()
