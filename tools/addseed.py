#!/venv/bin/python
"""Import an independently written breaking change produced by a sub-agent.

  tools/addseed.py C13 [name]      reads /tmp/seed/C13/_out/{patch.diff,demo.py,NOTES.md}

Confirms it myself: the patch applies to /repo HEAD (check only, /repo is not modified), the
demonstration fails with the change and passes without it (in a fresh scratch worktree of /repo
HEAD that is removed afterwards), the touched test files still pass with the change; then runs
the property's quick check against a scratch copy with the patch (tools/selftest.py) and writes
seeded/<id>/meta.json.
"""
import json
import os
import shutil
import subprocess
import sys
import tempfile
import time

HERE = os.path.dirname(os.path.dirname(os.path.abspath(__file__)))
PY = '/venv/bin/python'


def sh(cmd, cwd=None, timeout=900, env=None):
    r = subprocess.run(cmd, shell=True, cwd=cwd, capture_output=True, text=True, timeout=timeout, env=env)
    return r.returncode, (r.stdout + r.stderr)


def main():
    pid = sys.argv[1]
    variant = sys.argv[2] if len(sys.argv) > 2 else ''        # '' (round 1) | A | B (round 2)
    root = '/tmp/seed/%s' % pid if not variant else {'A': '/tmp/seed2/', 'B': '/tmp/seed2/', 'C': '/tmp/seed3/',
                                                      'D': '/tmp/seed3/', 'E': '/tmp/seed4/', 'F': '/tmp/seed4/', 'G': '/tmp/seed5/',
                                                      'H': '/tmp/seed5/', 'I': '/tmp/seed6/', 'J': '/tmp/seed6/', 'K': '/tmp/seed7/', 'L': '/tmp/seed8/', 'M': '/tmp/seed9/', 'N': '/tmp/seed10/'}[variant] + pid
    src = root + '/_out'
    name = pid if not variant else '%s-%s' % (pid, variant)
    dst = os.path.join(HERE, 'seeded', name)
    os.makedirs(dst, exist_ok=True)
    fsuf = {'C': 'A', 'D': 'B', 'E': 'A', 'F': 'B', 'G': 'A', 'H': 'B', 'I': 'A', 'J': 'B', 'K': 'A', 'L': 'A', 'M': 'A', 'N': 'A'}.get(variant, variant)   # rounds 3 / 4 are stored as variants C,D / E,F
    shutil.copy(os.path.join(src, 'patch%s.diff' % fsuf), os.path.join(dst, 'patch.diff'))
    shutil.copy(os.path.join(src, 'demo%s.py' % fsuf), os.path.join(dst, 'demo.py'))
    shutil.copy(os.path.join(src, 'NOTES.md'), os.path.join(dst, 'NOTES.md'))
    helpers = [f for f in os.listdir(src) if f.endswith('.py') and not f.startswith('demo') or f == 'demo_common.py']
    for f in helpers:
        shutil.copy(os.path.join(src, f), os.path.join(dst, f))
    patch = os.path.join(dst, 'patch.diff')
    meta = {'breaks': pid, 'source': 'independent sub-agent given only the property text and a scratch worktree'}
    rc, out = sh('git -C /repo apply --check %s' % patch)
    meta['applies_to_repo_head'] = rc == 0
    if rc != 0:
        print('patch does not apply to /repo HEAD:', out[-400:])
    files = [l[6:].strip() for l in open(patch) if l.startswith('+++ b/')]
    meta['files_touched'] = files
    # scratch worktree of /repo HEAD, outside /repo and /verif
    wt = tempfile.mkdtemp(prefix='seedverify-')
    os.rmdir(wt)
    sh('git -C /repo worktree add -q --detach %s HEAD' % wt)
    try:
        demo = os.path.join(wt, '_out')
        os.makedirs(demo, exist_ok=True)
        txt = open(os.path.join(dst, 'demo.py')).read().replace(root, wt)
        open(os.path.join(demo, 'demo.py'), 'w').write(txt)
        for f in helpers:
            open(os.path.join(demo, f), 'w').write(open(os.path.join(dst, f)).read().replace(root, wt))
        env = dict(os.environ, PYTHONPATH=wt, PYTHONDONTWRITEBYTECODE='1')
        t0 = time.time()
        rc0, out0 = sh('%s _out/demo.py' % PY, cwd=wt, timeout=300, env=env)
        meta['demo_without_change'] = {'exit': rc0, 'seconds': round(time.time() - t0, 1), 'tail': out0[-300:]}
        rca, outa = sh('git apply %s' % patch, cwd=wt)
        t0 = time.time()
        rc1, out1 = sh('%s _out/demo.py' % PY, cwd=wt, timeout=300, env=env)
        meta['demo_with_change'] = {'exit': rc1, 'seconds': round(time.time() - t0, 1), 'tail': out1[-300:]}
        # the test files that exercise the touched modules
        tests = set()
        for f in files:
            base = os.path.basename(f)[:-3]
            for t in os.listdir(os.path.join(wt, 'tests')):
                if t.startswith('test_') and (base in t or base.rstrip('s') in t):
                    tests.add('tests/' + t)
        tests |= {'tests/test_watcher.py', 'tests/test_arbiter.py', 'tests/test_controller.py', 'tests/test_client.py'}
        rct, outt = sh('%s -m pytest -q -p no:cacheprovider --timeout=600 %s --deselect tests/test_watcher.py::TestWatcher::test_max_age '
                       '--deselect tests/test_process.py::TestProcess::test_streams 2>&1 | grep -E "passed|failed" | tail -1'
                       % (PY, ' '.join(sorted(tests))), cwd=wt, timeout=900, env=env)
        meta['related_tests_with_change'] = outt.strip()
    finally:
        sh('git -C /repo worktree remove --force %s' % wt)
        shutil.rmtree(wt, ignore_errors=True)
    ok = meta['demo_without_change']['exit'] == 0 and meta['demo_with_change']['exit'] != 0
    meta['confirmed'] = bool(ok and meta['applies_to_repo_head'] and 'failed' not in meta['related_tests_with_change'])
    notes = open(os.path.join(dst, 'NOTES.md')).read()
    meta['needs_to_manifest'] = notes[:1500]
    # my checks against it
    rc, out = sh('%s %s %s %s' % (PY, os.path.join(HERE, 'tools', 'selftest.py'), patch, pid), cwd=HERE, timeout=1800)
    line = [l for l in out.splitlines() if l.startswith(('CAUGHT', 'MISSED', 'INCONCLUSIVE', 'PATCH-FAILED', 'rc='))]
    meta['check_result'] = line[0][:400] if line else out[-400:]
    meta['caught_by'] = [pid] if line and line[0].startswith('CAUGHT') else []
    meta['what_i_ran'] = ['git -C /repo apply --check patch.diff', 'demo.py in a fresh worktree of /repo HEAD without / with the patch',
                          'pytest on the related test files with the patch', 'tools/selftest.py patch.diff %s' % pid]
    json.dump(meta, open(os.path.join(dst, 'meta.json'), 'w'), indent=1)
    print(json.dumps({k: meta[k] for k in ('confirmed', 'applies_to_repo_head', 'demo_without_change', 'demo_with_change',
                                           'related_tests_with_change', 'check_result')}, indent=1)[:1800])


if __name__ == '__main__':
    main()
