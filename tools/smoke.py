#!/venv/bin/python
"""1-second smoke run of each engine (part of setup_cmd)."""
import os
import sys
sys.path.insert(0, os.path.dirname(os.path.dirname(os.path.abspath(__file__))))
from vlib.common import repo_dir
sys.path.insert(0, repo_dir())


def sim_smoke():
    from tornado import gen
    from vlib import simhist
    h = {'watchers': [{'name': 'a', 'numprocesses': 2, 'graceful_timeout': 0.3}], 'steps': []}
    w = simhist.new_world(h)
    out = {}

    @gen.coroutine
    def go():
        yield simhist.boot(w, h)
        r = yield w.call('stop', name='a', waiting=True)
        out['r'] = r
        out['live'] = w.kernel.live()
    w.run(go)
    w.close()
    assert out['r']['status'] == 'ok' and out['live'] == [], out
    print('SIM smoke ok')


sim_smoke()
