#!/venv/bin/python
"""Regenerates /verif/MANIFEST.json from the table below (kept next to the checks so the two
cannot drift).  Run after adding or changing a check:  tools/mkmanifest.py"""
import json
import os

HERE = os.path.dirname(os.path.dirname(os.path.abspath(__file__)))

# id -> (engine, category, technique, level text, level note)
CHECKS = {
    'C01': ('SIM', 'exploration',
            'runtime monitoring: real Arbiter/Watcher on a simulated kernel in virtual time; convergence, '
            'freshness and fixpoint oracles over the kernel ledger',
            'Random request/fault histories plus deaths injected at every kernel-call boundary of an '
            'operation; after quiescence the kernel process table is compared with the numprocesses the '
            'daemon reports within <=3 periodic checks, then three idle checks must leave the ledger untouched. '
            'Held-on-observed, not a proof: the quantifier over all histories is sampled.',
            'Trusts the simulated kernel (calibrated against real psutil/subprocess) and the hand-driven '
            'periodic check; on-demand, respawn=False and max_age>0 are outside the statement.'),
}

NOT_YET = {
}

DESIGN_REF = {k: 'DESIGN.md section 4 (%s)' % k for k in CHECKS}


def main():
    checks = []
    for pid, (engine, cat, tech, text, note) in sorted(CHECKS.items()):
        checks.append({
            'property_id': pid,
            'quick_cmd': './check %s --tier quick' % pid,
            'thorough_cmd': './check %s --tier thorough' % pid,
            'evidence_file': 'evidence/%s.json' % pid,
            'replay_cmd_template': './check %s --replay {path}' % pid,
            'engine': engine,
            'level_claimed': {'category': cat, 'text': text, 'design_ref': DESIGN_REF[pid]},
            'level_note': note,
            'technique': tech,
        })
    props = [json.loads(l)['id'] for l in open(os.path.join(HERE, 'properties.jsonl')) if l.strip()]
    na = []
    for pid in props:
        if pid not in CHECKS:
            na.append({'property_id': pid,
                       'reason': NOT_YET.get(pid, 'check not built yet in this round (design in DESIGN.md '
                                                  'section 4); not claimed until its monitor runs clean')})
    m = {
        'version': 1,
        'setup_cmd': './setup.sh',
        'hooks': {
            'guard': 'CIRCUS_VERIF',
            'enable': 'no source hooks: checks rebind module attributes of the circus modules from the '
                      'harness (vlib/sim.py install()); CIRCUS_VERIF is only read by the harness',
            'baseline_off_cmd': 'cd /repo && /venv/bin/python -m pytest -ra -q -p no:cacheprovider '
                                '--timeout=900 --continue-on-collection-errors',
            'source_commits': [],
            'add_only': True,
        },
        'engines': [
            {'name': 'SIM', 'path': 'vlib/sim.py', 'kind_free_text':
                'real circus supervisor code on a simulated kernel, virtual-time asyncio loop and fake ZeroMQ; '
                'monitors: kernel ledger, event ledger, reply ledger, loop monitor',
             'serves_properties': sorted(k for k, v in CHECKS.items() if 'SIM' in v[0])},
            {'name': 'LIVE', 'path': 'vlib/live.py', 'kind_free_text':
                'real circusd / in-process Arbiter with real probe workers; oracles from /proc, strace and '
                'the workers own logs',
             'serves_properties': sorted(k for k, v in CHECKS.items() if 'LIVE' in v[0])},
            {'name': 'REF', 'path': 'vlib/ref', 'kind_free_text':
                'generated inputs through the real pure functions compared with independently written '
                'reference models',
             'serves_properties': sorted(k for k, v in CHECKS.items() if 'REF' in v[0])},
        ],
        'checks': checks,
        'not_applicable': na,
        'notes': 'Technique family: runtime monitoring. Every check prints KNOWN-FINDING lines for entries of '
                 'KNOWN_FINDINGS.jsonl and fails only on violations whose mechanism key is not listed. '
                 'exit 2 + INCONCLUSIVE line = deciding monitor starved / harness problem, never a verdict.',
    }
    with open(os.path.join(HERE, 'MANIFEST.json'), 'w') as f:
        json.dump(m, f, indent=1)
    print('MANIFEST.json: %d checks, %d not claimed' % (len(checks), len(na)))


if __name__ == '__main__':
    main()
