#!/venv/bin/python
"""Regenerates /verif/MANIFEST.json from the table below (kept next to the checks so the two
cannot drift).  Run after adding or changing a check:  tools/mkmanifest.py"""
import json
import os

HERE = os.path.dirname(os.path.dirname(os.path.abspath(__file__)))

# id -> (engine, category, technique, level text, level note)
CHECKS = {
    'C01': ('SIM', 'exploration',
            'runtime monitoring: real Arbiter/Watcher on a simulated kernel in virtual time; convergence, '
            'freshness and fixpoint oracles over the kernel ledger',
            'Random request/fault histories plus deaths injected at every kernel-call boundary of an '
            'operation, transient spawn faults (n-th process creation fails, before_spawn refusing once) and '
            'singleton reloadconfig cases; after quiescence the kernel process table is compared with the '
            'numprocesses the daemon reports within <=3 periodic checks, completed restarts/reloads (completion '
            'read from the reply or the event channel) must leave only fresh workers, then three idle checks '
            'must leave the ledger untouched. '
            'Held-on-observed, not a proof: the quantifier over all histories is sampled. Histories that end with the exclusive slot taken while nothing is scheduled any more are judged too (no request is in flight in any sense).',
            'Trusts the simulated kernel (calibrated against real psutil/subprocess) and the hand-driven '
            'periodic check; on-demand, respawn=False and max_age>0 are outside the statement.'),
    'C02': ('SIM+LIVE', 'fault_enumeration',
            'runtime monitoring with fault enumeration: worker death injected at every kernel-call boundary of the '
            'stop sequence on the simulated kernel; completion-instant oracle over the process table',
            'Every stop/restart/rm/quit/stop-all base history is replayed once per kernel-call boundary of its stop '
            'sequence with a worker death landing exactly there; at the instant the reply is written every table '
            'member must be reaped, and a random tail (checks, deaths, incr/decr, set of every option class) must '
            'not spawn for the stopped watcher; a third of the watchers carry refusing / failing stop, signal and '
            'reap hooks, a past of stop/start cycles or max_age replacements, wall-clock steps inside the stop '
            'sequence; real circusd histories judge the same on /proc. Complete over the '
            'boundaries of each sampled base history; base histories are sampled. LIVE histories carry an on-demand watcher that is idle (stream or datagram socket: never started) or contacted (a stop inside its socket-triggered start-up); SIM histories also send the operation while a non-waiting restart/reload of the same watcher is still spawning.',
            'Trusts the simulated kernel model (calibrated) and that deaths can only land at kernel-call '
            'boundaries of the single-threaded daemon; a stop that never completes is a violation here too.'),
    'C03': ('SIM+LIVE', 'exploration',
            'runtime monitoring: per-pid signal episodes from the simulated kernel ledger in exact virtual time '
            'checked against timing rules R1-R5',
            'Grid over stop signals x graceful timeouts x reaction delays on both sides of (and exactly at) the '
            'deadline x 16 termination causes (incl. a second termination inside the grace period of a kill '
            'request, per-request overrides) x stop_children trees with a child vanishing at a kernel-call '
            'boundary; quick samples the grid, thorough enumerates it with several variants per cell; plus real '
            'circusd histories under strace judged by the same rules on the kernel time stamps; wall-clock steps '
            'inside the grace period; five restarts in a row with generations that change behaviour; a quarter '
            'of the shards run with DEBUG set in the daemon environment. Workers that fork one more helper in answer to the stop signal, and grandchildren: the final SIGKILL reaches every running descendant.',
            'Virtual time is exact, so lateness is measured in polling steps; one polling step of slack is granted '
            'as the statement does; before_signal vetoes belong to C14.'),
    'C04': ('SIM+LIVE', 'fault_enumeration',
            'runtime monitoring: protocol snapshot (list/numprocesses/stats/status) vs simulated kernel process '
            'table at quiescent points, with deaths injected at every kernel-call boundary',
            'Random multi-watcher histories with hook outcomes and exec failures, plus per-boundary death sweeps of '
            'the last operation; at each quiescent point the reported processes must equal the live children, no '
            'zombie, no transient status; plus real circusd histories with /proc as the process table.',
            'Agreement is only demanded at quiescent points (one periodic check after the last event); stalled '
            'histories are truncated and left to C05.'),
    'C09': ('SIM+LIVE', 'fault_enumeration',
            'runtime monitoring: online reconstruction of the live set from the recorded PUB-socket event ledger '
            'compared with the simulated kernel; deaths with every status placed at every kernel-call boundary',
            'An online checker consumes every published event; at quiescent points its believed-alive set must '
            'equal the kernel live set, every kernel spawn has exactly one spawn event, no pid is reaped twice, and '
            'self/outside deaths carry the exact exit_code; histories include signal hooks that veto, relayed '
            'non-fatal signals (plain and recursive); plus real circusd histories with a real SUB socket. send_hup watchers (a graceful reload kills nobody); a worker already dead when the daemon first announces its termination owes a reap event.',
            'The SIM PUB socket records every message (no transport loss); the exit_code clause is not judged for '
            'a worker whose kill event was already published or that the daemon signalled at the instant of death.'),
    'C05': ('SIM+LIVE', 'exploration',
            'runtime monitoring: loop monitor charging virtual time.sleep to the loop iteration it blocks, read-only '
            'probes injected at selector polls, reply-latency oracle against B(op)',
            'Random overlapping request histories (exclusive and non-exclusive) with stubborn/dying workers; every '
            'blocked iteration > 0.5 s or dead-lock is reported with the circus call site and a mechanism tag; probes '
            'at every other selector poll must be answered inside handle_message; waiting replies must arrive within '
            'B(op); watchers with captured output and helper children (real pipes that stay open while a holder '
            'lives: a read on an empty held pipe is a stall), wall-clock steps at kernel-call boundaries, long '
            'histories of one repeated operation, n stubborn workers killed in parallel; real circusd histories '
            'with a second client probing every 100 ms (incl. an idle on-demand watcher). A LIVE case with a pre-forking worker (24-32 children): stats from one client, status from a second 50 ms later, best of three attempts. A deterministic bad-release sub-plan (every later generation exits during its warm-up) and a LIVE case with an event subscriber that never reads while thousands of events are published.',
            'Virtual time: a wait that cannot end is decidable because nothing else can run; hooks never sleep here.'),
    'C10': ('SIM', 'exploration',
            'runtime monitoring: second request injected at every selector poll of the first; differential no-effect '
            'oracle, nesting counter on the synchronized entry points, wedge probe',
            'Every (A, B, poll) triple for 23 first requests (succeeding, raising synchronously, failing '
            'asynchronously) and 14 second requests, plus random chains; refusal, no-effect (snapshot and kernel '
            'ledger equal to the run without B), single exclusive operation in flight (also: no entry accepted while '
            'work started by an ended operation still runs), slot freed after every ending, incl. a reloadconfig '
            'that found the [circus] section edited, a periodic check of an arbiter without watchers, the same '
            'operation repeated after 30 s .. 1 h of virtual time, and requests sent as casts. Requests after a stop that failed half-way (stream close fails), requests arriving while the periodic check starts an on-demand watcher (real listening socket inside the simulated world), captured watchers whose helper holds the pipes; requests during a reloadconfig that still stops a watcher.',
            'Whether A is in flight is sampled when handle_message is entered for B; arbiter-wide restart is LIVE-only.'),
    'C11': ('SIM', 'exploration',
            'runtime monitoring: protocol snapshot + kernel ledger before/after every request answered with an error, '
            'requests generated by labelled corruption operators',
            'Valid requests of every command, left intact or corrupted in one or two fields, in several daemon states '
            '(incl. an operation in flight and one-shot signal-hook vetoes); an error reply '
            'must leave snapshot (watchers, options, statuses, pids, stats keys, hooks) and kernel ledger unchanged. Requests whose properties member is not an object; add with the hooks option; a seed-independent endpoint-owner core.',
            'Only synchronous error replies are judged; ok replies are not this property.'),
    'C14': ('SIM', 'fault_enumeration',
            'runtime monitoring with exhaustive enumeration of hook outcomes: scripted hooks that count their own '
            'invocations; status, kernel process table, signal ledger and hook_success/hook_failure events as oracles',
            'All 1296 outcome/ignore assignments of the four start-phase hooks x obedient/stubborn worker x '
            'numprocesses 1/2, all 36 (before_stop, after_stop) assignments x stop/restart/rm/quit, all 36 '
            '(before_signal, after_signal) assignments x six signalling requests; gating, end state, SIGKILL '
            'exemption and the call<->event bijection are checked on every run. Exhaustive over the stated space. numprocesses 0; real-time signal numbers as relayed signal and as stop signal.',
            'A raising before_signal without ignore flag is ambiguous and only recorded.'),
    'C15': ('SIM+LIVE', 'exploration',
            'runtime monitoring: online reference dict of watcher names updated from the replies, compared with '
            'list/status/stats/numwatchers after every step; real config file for reloadconfig',
            'Random add/rm/start/stop/reloadconfig/status/list sequences over a name pool with case variants, empty '
            'and unusual names; every view must equal the reference, names unique ignoring case, other-case requests '
            'reach the watcher, removed watchers vanish with their workers, add ok implies presence; views are also '
            'compared with each other in the middle of rm / stop operations and after add+start whose spawns fail. LIVE: rm with nostop while the workers keep writing to the output the daemon captured for them.',
            'Glob characters in names are addressed with match=simple; config files never define case-colliding names.'),
    'C18': ('SIM', 'exploration',
            'runtime monitoring: kernel signal ledger (target pid, number) vs watcher membership and descendants at '
            'that instant; full designation table pushed through every entry point; audit hook blocks and reports '
            'any real os.kill',
            'Random signal/kill requests addressing own/foreign/dead pids, children and grandchildren in '
            'active/stopped/stopping watchers; every designation of every signal name/number through signal, kill, '
            'set, add and config; clear-invalid near misses must be refused without a signal; kill requests are '
            'judged for the complete addressed set (workers and, with stop_children, their children) while a child '
            'vanishes mid-loop. shell = True watchers with os.killpg modelled in the simulated kernel; stop_signal by name in the options of set and add.',
            'Floats, booleans, signed/non-ASCII numeric strings, whitespace and out-of-range numbers are ambiguous '
            'and never decide.'),
    'C19': ('SIM+LIVE', 'exploration',
            'runtime monitoring: kernel spawn ledger with exact virtual timestamps checked for non-interleaving, '
            'priority order and warmup pacing',
            'Random watcher sets with priority ties, numprocesses 0-3, warmups and autostart flags; daemon start, '
            'start/restart of all, by glob and by regex, arbiter-wide reload without the graceful mode; deaths injected during the sequence; starts that fail '
            'half-way (hook refusing the n-th spawn, after_start false); restart/start requests fired at a '
            'periodic check that is respawning the watcher; watchers removed/added at run time before the group '
            'operation; 130-process watchers; wall-clock steps during the sequence. LIVE: the daemon start of a real circusd (its own loop): autostart = False watchers stay stopped, negative priorities come last, priority order judged where the earlier watcher pauses 1 s per spawn. SIM: the start order of several on-demand watchers behind one real socket.',
            'Virtual clock; spawn cost is modelled by hooks that consume virtual time.'),
    'C12': ('SIM+LIVE', 'exploration',
            'runtime monitoring: differential comparison of the reloaded daemon with a fresh simulated daemon started '
            'on the same file; pid continuity and kernel-activity oracles',
            'Chains of configuration versions produced by labelled edits (add/remove watcher, numprocesses incl. '
            'reverts, cmd/args, global and named env, option add/remove/modify, no-op rewrites); after every '
            'reloadconfig the protocol view must equal a fresh start, untouched watchers keep their pids, '
            'numprocesses-only edits move only the difference (also when a worker was SIGKILLed just before the '
            'request), unchanged files cause no kernel activity; stream options, mixed-case names and env values '
            'with $VAR references are in the edit alphabet. LIVE: reloadconfig on a real circusd started with --log-level / --log-output (unchanged file, then an edited and an added watcher). Programs that do not exist and their repair; hooks named by dotted path, the ignored-failure set compared with a fresh start; seed-independent chains in which only a hook line changes or options disappear one by one.',
            'What a file means is taken from get_config (C16 checks that against the documentation).'),
    'C13': ('REF+SIM', 'exploration',
            'runtime monitoring: Process.format_args vs an independent argv model on enumerated token sequences; '
            'arguments of the process-creation call captured by the simulated kernel over respawn histories',
            'Exhaustive over short token sequences (quotes, backslashes, dollars, both reference syntaxes in any '
            'case, unknown references) in three roles with shell on/off, random beyond; every spawn record of random '
            'death/incr/decr/kill/reload histories is compared with the model for the configuration in force when it '
            'was made (run-time set of env/cmd/args/working_dir opens a new epoch; env=None means the daemon\'s '
            'environment), live wids must be distinct positive integers starting at 1 after every step, and workers '
            'of a daemon built from a generated file get the environment the reference reader computes. Literal text beginning like the deprecated $WID placeholder.',
            'Unknown names come from a reserved pool; env names never collide ignoring case; the model splitter is '
            'cross-checked against shlex on every input.'),
    'C16': ('REF', 'exploration',
            'runtime monitoring: get_config and the Watcher built from it vs a reference reader written from the '
            'documentation, on generated ini files',
            'Generated files with watcher, env, env:PATTERN (wildcards, comma lists), socket and plugin sections in '
            'shuffled order, typed/boolean/signal/stream/rlimit/hook/free-form options and references in any option; '
            'every option value and type, every environment, the Watcher attributes and the per-watcher hook '
            'ignore-failure flags must agree; parsing twice must be equal. Signed priorities.',
            'Ambiguous classes (case-colliding names, [env] values referring to other [env] variables, typed options referring to '
            'env:NAME-only variables, repeated identical headers) are not generated; the __name__ marker in the '
            'watcher dict is not an option and is not compared.'),
    'C20': ('REF', 'exploration',
            'runtime monitoring: the real FileStream in a scratch directory, suffix/size/count oracles after every '
            'write',
            'Exhaustive over max_bytes 1..8 x backup_count 1..3 x all write-size sequences (length 4 quick / 5 '
            'thorough, every prefix checked), random beyond with pre-existing files, gaps, time_format, multi-line '
            'and non-ASCII payloads, newline placement under time_format, close/reopen, no-rotation streams, and '
            'writes the operating system refuses (EFBIG for exactly one call). Consecutive chunks from different pids on one stream.',
            'Size bound judged on ASCII payloads without time_format.'),
    'C06': ('SIM+REF+LIVE', 'exploration',
            'runtime monitoring: reply ledger per frame handed to the real Controller.handle_message (count, envelope, '
            'JSON shape, status, id) with a follow-up probe; real CircusClient/AsyncCircusClient against a scripted '
            'ROUTER peer over real ZeroMQ',
            'Arbitrary bytes, every JSON shape, field-by-field corruption, every registered command with valid and '
            'type-confused properties and operations that fail after the immediate-reply path; client calls against '
            'permutations of stale/foreign/id-less/duplicate/right replies and silence, with fresh mappings or one '
            'message object reused by the caller (and a stepped wall clock when the client uses one); a real '
            'circusd answering requests from 10 bytes to 3 MiB exactly once each. LIVE: a whole-arbiter restart and the final quit, both with waiting, each get exactly one reply from a real circusd.',
            'Multi-frame envelopes are not judged; AsyncCircusClient has no timeout of its own.'),
    'C07': ('LIVE', 'exploration',
            'runtime monitoring of a real circusd under strace: socket inodes from /proc/<pid>/fd of daemon and '
            'workers, bind() calls from the strace record, connect() probes',
            'Real daemon with managed inet/unix/so_reuseport sockets and probe workers that dump argv and '
            'descriptors, over 6-10 worker generations driven by SIGKILL, restart, reload, incr, decr, reloadconfig '
            '(unchanged file / edited watcher section) and periods in which process creation fails. stdin_socket watchers, also inetd-style with the same socket\'s descriptor number on the command line. `statsd = True` daemons whose circusd-stats worker (it inherits every managed socket) is restarted, sent SIGTERM, stopped and started between the generations.',
            'so_reuseport sockets are per-worker by design; wall clock only ever makes a case inconclusive.'),
    'C08': ('LIVE', 'exploration',
            'runtime monitoring of a real circusd under strace: exit status, /proc children (pid,starttime), '
            'filesystem and connect() after quit / SIGTERM / SIGINT / SIGQUIT at chosen points of its life',
            'Quit request or termination signal when idle, the moment the pid file appears, during the paced start-up, '
            'during stop/restart with stubborn workers (short and 7 s grace), during a respawning periodic check; '
            'pid-file start-up cases (live other pid, dead, empty, garbage, negative, zero, the daemon\'s own pid). A second termination signal during a shutdown that lasts; an idle daemon with a check_delay of an hour; a daemon run by an unprivileged user whose pid file names a live process of another user.',
            'A verdict of "never exits" needs corroboration (process still there, signal seen by strace) after a wait '
            '>= 10x the configured timeouts; libzmq ipc files are not demanded.'),
    'C17': ('LIVE', 'exploration',
            'runtime monitoring in process: real Arbiter on a real loop, real pipes, collecting stream objects; byte '
            'for byte comparison with what the self-describing probe workers wrote; handler invocation counter; '
            '/proc/self/fd growth',
            '1-6 concurrent writers with scripted chunk sizes (1 byte .. 70 000 bytes, around the 1024-byte read '
            'buffer) on both channels while a sibling watcher is restarted/reloaded/SIGKILLed for 25-120 generations; '
            'one writer closes a pipe early, one ends with a burst of exactly two read buffers, three exit by themselves '
            'while a helper child holds their pipes, the streams of one running writer are replaced; a heartbeat + '
            'watchdog thread reports a blocked loop. A writer whose pipes get descriptor numbers above 1024; one stream object configured for both channels; equal configurations with a stream each.',
            'Only workers that keep running are judged; the leak measure is the fd-count growth after generation 10.'),
}

NOT_YET = {
}

DESIGN_REF = {k: 'DESIGN.md section 4 (%s)' % k for k in CHECKS}


def main():
    checks = []
    for pid, (engine, cat, tech, text, note) in sorted(CHECKS.items()):
        checks.append({
            'property_id': pid,
            'quick_cmd': './check %s --tier quick' % pid,
            'thorough_cmd': './check %s --tier thorough' % pid,
            'evidence_file': 'evidence/%s.json' % pid,
            'replay_cmd_template': './check %s --replay {path}' % pid,
            'engine': engine,
            'level_claimed': {'category': cat, 'text': text, 'design_ref': DESIGN_REF[pid]},
            'level_note': note,
            'technique': tech,
        })
    props = [json.loads(l)['id'] for l in open(os.path.join(HERE, 'properties.jsonl')) if l.strip()]
    na = []
    for pid in props:
        if pid not in CHECKS:
            na.append({'property_id': pid,
                       'reason': NOT_YET.get(pid, 'check not built yet in this round (design in DESIGN.md '
                                                  'section 4); not claimed until its monitor runs clean')})
    m = {
        'version': 1,
        'setup_cmd': './setup.sh',
        'hooks': {
            'guard': 'CIRCUS_VERIF',
            'enable': 'no source hooks: checks rebind module attributes of the circus modules from the '
                      'harness (vlib/sim.py install()); CIRCUS_VERIF is only read by the harness',
            'baseline_off_cmd': 'cd /repo && /venv/bin/python -m pytest -ra -q -p no:cacheprovider '
                                '--timeout=900 --continue-on-collection-errors',
            'source_commits': [],
            'add_only': True,
        },
        'engines': [
            {'name': 'SIM', 'path': 'vlib/sim.py', 'kind_free_text':
                'real circus supervisor code on a simulated kernel, virtual-time asyncio loop and fake ZeroMQ; '
                'monitors: kernel ledger, event ledger, reply ledger, loop monitor',
             'serves_properties': sorted(k for k, v in CHECKS.items() if 'SIM' in v[0])},
            {'name': 'LIVE', 'path': 'vlib/live.py', 'kind_free_text':
                'real circusd / in-process Arbiter with real probe workers; oracles from /proc, strace and '
                'the workers own logs',
             'serves_properties': sorted(k for k, v in CHECKS.items() if 'LIVE' in v[0])},
            {'name': 'REF', 'path': 'vlib/ref', 'kind_free_text':
                'generated inputs through the real pure functions compared with independently written '
                'reference models',
             'serves_properties': sorted(k for k, v in CHECKS.items() if 'REF' in v[0])},
        ],
        'checks': checks,
        'not_applicable': na,
        'notes': 'Technique family: runtime monitoring. Every check prints KNOWN-FINDING lines for entries of '
                 'KNOWN_FINDINGS.jsonl and fails only on violations whose mechanism key is not listed. '
                 'exit 2 + INCONCLUSIVE line = deciding monitor starved / harness problem, never a verdict.',
    }
    with open(os.path.join(HERE, 'MANIFEST.json'), 'w') as f:
        json.dump(m, f, indent=1)
    print('MANIFEST.json: %d checks, %d not claimed' % (len(checks), len(na)))


if __name__ == '__main__':
    main()
