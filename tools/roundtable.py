#!/usr/bin/env python3
"""prints the DESIGN.md table of one seed round from seeded/*/meta.json (change descriptions are kept here)"""
import json
import os
import re
import sys
HERE = os.path.dirname(os.path.dirname(os.path.abspath(__file__)))
DESC = {
 'C01-I': 'a reload keeps leftovers of the old generation "so as not to go below the target"',
 'C01-J': '`int(check_delay)` in the controller: 0.5 s becomes "no periodic check"',
 'C02-I': 'stop reaps only the workers that went through the stop sequence',
 'C02-J': 'on-demand poll uses `select.poll()` registered for every event: a datagram socket is always "ready"',
 'C03-I': '`signal.Signals(stop_signal).name` in a debug line (raises for real-time signal numbers)',
 'C03-J': '`get_active_processes` leaves out workers that are being stopped',
 'C04-I': 'reaper loops over the known pids instead of `waitpid(-1)`',
 'C04-J': 'stop reaps only what it has just killed',
 'C05-I': '`EAGAIN` / `ETXTBSY` from a spawn do not use up `max_retry` (retry without yielding)',
 'C05-J': 'sequential reload respawns until the replacement survived its warmup',
 'C06-I': '`except Exception` instead of a bare `except` around command execution',
 'C06-J': 'conflict errors are sent to cast senders too',
 'C07-I': 'a `stdin_socket` watcher gets every managed descriptor (`use_fds`)',
 'C07-J': 'a socket whose bind fails is skipped',
 'C08-I': '`fsync` before closing a file stream (raises for `/dev/null`-like targets)',
 'C08-J': '`EPERM` from the pid-file liveness probe counts as "stale"',
 'C09-I': 'a finished `respawn = False` watcher is not stopped, only its redirector is released',
 'C09-J': '`rm_watcher` calls `watcher.initialize(None, None, None)` (events of the removal are lost)',
 'C10-I': 'the `finally` of `synchronized` becomes `except Exception` (slot kept when a hook calls `sys.exit`)',
 'C10-J': '`add` with `start` goes through `arbiter.start_watcher` (global warmup pause inside the slot)',
 'C11-I': '`stop_signal` by name resolved for `add` after the watcher was created',
 'C11-J': '`set numprocesses` stores the value before validating it',
 'C12-I': 'a second `reloadconfig` during a running one is answered ok without doing anything',
 'C12-J': 'watchers (re)created by `reloadconfig` are started without the warmup pacing',
 'C13-I': '`sorted(cfg.sections())` for the `[env:…]` sections',
 'C13-J': 'the command line is expanded with `os.environ` merged in',
 'C14-I': 'the ignore-failure flag is stored before the hook name is resolved: a refused `set hooks.x bad.name,true` leaves the old hook ignorable',
 'C14-J': 'a failed `after_start` does not stop a watcher that "is already serving"',
 'C15-I': 'the name index is filled before the start hooks run (and not cleaned when the start fails)',
 'C15-J': 'a watcher created by `add` is re-created from the file on `reloadconfig`',
 'C16-I': 'values without the substring `circus.` skip the expansion',
 'C16-J': '`[env:pattern]` variables collected per pattern before matching',
 'C17-I': 'the redirector "flushes" a pipe with a handler loop when the descriptor is removed',
 'C17-J': '`select.select([fd])` before every read (raises for descriptors ≥ 1024)',
 'C18-I': 'signal-name cache that forgets the `+n` offset',
 'C18-J': 'workers being stopped are left out of the addressed set',
 'C19-I': 'the warmup sleep ends early when the last worker has already exited',
 'C19-J': '`debuglog` (DEBUG mode) returns the generator of a coroutine without running it to the end',
 'C20-I': 'the rollover test counts the time prefix',
 'C01-K': '`synchronized`: on failure the slot is reset on `self` instead of the arbiter (a `set` that raises in `Watcher.set_opt` keeps the arbiter locked for ever)',
 'C02-K': 'the per-fork `is_stopped()` guard of `spawn_process` becomes one check at the top of `spawn_processes`',
 'C03-K': '`Process.children()` answers from the children remembered at the stop signal while the process is being stopped',
 'C04-K': '`kill_process` no longer removes the redirections before closing the pipes (stale loop handlers; a later spawn on the same descriptor number fails and its child is lost)',
 'C05-K': '`XPUB_NODROP` on the event socket: a subscriber that stops reading blocks the daemon inside libzmq',
 'C06-K': '`json_msg.get(\'msg_type\', \'\').lower()` before the `try` of `dispatch`',
 'C07-K': 'socket descriptors are only mapped when `\'circus.sockets.\' in self.args` (element test for a list of args, case-sensitive)',
 'C08-K': '`Arbiter.stop()` gives the signal handlers back at the start of the shutdown',
 'C09-K': 'the `send_hup` reload goes through `send_signal_process` (a `kill` event per surviving worker)',
 'C10-K': '`_stop` of a watcher that is already "stopping" waits for the other stop to end',
 'C11-K': '`add` applies the `hooks` option with `set_opt` after the watcher was registered',
 'C12-K': 'the `DictDiffer` of `reload_from_config` replaced by a pass over the new keys (removed options go unnoticed)',
 'C13-K': '`format_args` splits a string `args` before substituting',
 'C14-K': 'the start-abort test reordered: with `numprocesses = 0` `after_start` is not consulted',
 'C15-K': '`Watcher.__init__` strips the name (`add " web"` next to `web`)',
 'C16-K': '`if not val: continue` for watcher options (an empty value keeps the default)',
 'C17-K': '`_reload_stream` rebuilds the redirector instead of swapping the stream',
 'C18-K': 'a `shell = True` worker is signalled with `os.killpg`',
 'C19-K': '`if watcher.autostart or self._running` in `_start_watchers`',
 'C20-K': 'the line prefix is cached per formatted time (not per pid)',
 'C01-L': '`Watcher.set_opt` loses `@synchronized`: a `set numprocesses` refused as conflicting has already stored the value',
 'C02-L': '`Arbiter.stop()` loses `@synchronized("arbiter_stop")`: a quit runs beside the start-up it interrupts',
 'C03-L': '`remove_expired_processes` pops the expired workers from the table before it kills them (no stop signal, no SIGKILL)',
 'C04-L': 'a vetoing `before_signal` hook also withholds the final SIGKILL',
 'C05-L': '`self.loop.stop()` at once instead of `add_callback(self.loop.stop)` (the reply to a waiting quit / restart is never produced)',
 'C06-L': '`Controller.stop()` no longer flushes the stream before closing it (the reply to a waiting whole-arbiter restart is dropped)',
 'C07-L': 'the child closes the original descriptor after `dup2(stdin_socket_fd, 0)`',
 'C08-L': '`add_callback` instead of `add_callback_from_signal` in the signal handler (an idle daemon is not woken)',
 'C09-L': 'graceful reload kills "exactly the old generation" without the `manage_processes` pass (a zombie gets a kill event and no reap event)',
 'C10-L': '`kill_process` waits until the redirector has read the pipes to EOF',
 'C11-L': 'the last `except:` of `dispatch` clears `_exclusive_running_command`',
 'C12-L': 'command-line logging options are stored in `arbiter._cfg` (every reloadconfig believes `[circus]` changed)',
 'C13-L': 'the deprecated `$WID` replacement applied to the final argument vector (`$WIDTH` becomes `1TH`)',
 'C14-L': '`signal.Signals(signum).name` in the debug line of a vetoed signal (raises for real-time signals)',
 'C15-L': '`rm` with `nostop` closes the output channels of the workers it leaves running',
 'C16-L': 'one `isinstance(default, bool)` branch for boolean options (`close_child_*` have no default entry)',
 'C17-L': 'stderr opened as `STDOUT` when both channels are configured with the same stream object',
 'C18-L': '`validate_option` accepts `stop_signal` by name for `add`, which stores the string',
 'C19-L': '`priority` parsed only when `str.isdigit()` (negative priorities become 0)',
 'C20-L': 'the redirector handler looks its writer up once, at construction (`set stdout_stream.*` on a running watcher)',
 'C20-J': 'rollover closes the file unconditionally and no longer reopens a file that is not open (failure between close and reopen is fatal)',
}
letters = sys.argv[1:] or ['I', 'J']
names = sorted(n for n in os.listdir(os.path.join(HERE, 'seeded')) if n[-1] in letters and n[-2] == '-')
FIRST = set('C03-L C16-L C11-L C04-K C06-K C07-K C12-K C13-K C15-K C16-K C17-K C01-I C02-I C04-I C04-J C06-J C07-J C13-I C15-J C16-I C16-J C17-I C18-I C18-J C19-I'.split())
print('| seed | change | first | now caught by |\n|---|---|---|---|')
for n in names:
    m = json.load(open(os.path.join(HERE, 'seeded', n, 'meta.json')))
    keys = []
    for k in re.findall(r'key=(\S+)', m.get('check_result') or ''):
        if k not in keys:
            keys.append(k)
    if str(m.get('status', '')).startswith('obsolete'):
        keys = []
    now = ('obsolete: ' + m['status'].split(':', 1)[1].strip()[:170] + ' …') if str(m.get('status', '')).startswith('obsolete') else ', '.join('`%s`' % k for k in keys[:3]) or ('**not caught**' if not m.get('caught_by') else ','.join(m['caught_by']))
    print('| %s | %s | %s | %s |' % (n, DESC.get(n, '?'), 'caught' if n in FIRST else 'missed', now))
