"""History interpreter for the SIM engine.

A *history* is a JSON document:

  {"arb": {"warmup_delay": 0.0},
   "kill_latency": 0.0,
   "watchers": [{"name": "a", "numprocesses": 2, "graceful_timeout": 0.25, ...,
                 "beh": [{"15": ["die", 0.1]}, {"15": ["ignore"]}],      # per spawn, cycled
                 "kids": [{"beh": {...}, "kids": [...]}],
                 "hooks": {"before_start": ["false", false]}}],
   "spawn_fail": [3, 4],
   "steps": [["req", "incr", {"name": "a"}], ["check"], ["adv", 0.3],
             ["die", "a", 0, 768], ["extkill", "a", 1, 9],
             ["inject_death", 4, "a", 0, 9], ["inject_req", 2, 0.5, "stop", {"name": "a"}]]}

It is the unit of generation, replay and minimisation.
"""
import collections
import signal

from tornado import gen

from vlib import sim

WATCHER_KEYS = ('numprocesses', 'graceful_timeout', 'warmup_delay', 'singleton', 'stop_signal',
                'stop_children', 'respawn', 'autostart', 'priority', 'max_retry', 'max_age',
                'max_age_variance', 'send_hup', 'args', 'env', 'copy_env', 'working_dir', 'shell',
                'use_sockets', 'on_demand', 'close_child_stdin', 'close_child_stdout', 'close_child_stderr')


def tag_of(name):
    """argv[0] token that identifies a watcher's workers in the simulated kernel (injective on names
    that differ ignoring case; no shell metacharacters)"""
    import re
    return 'w_' + re.sub(r'[^a-z0-9]', lambda m: '_%x_' % ord(m.group()), name.lower())


class HookScript:
    """a scripted hook: outcome in {'true','false','raise'}; counts its own invocations"""

    def __init__(self, world, wname, hname, outcome):
        self.world, self.wname, self.hname, self.outcome = world, wname, hname, outcome
        self.__name__ = 'hook_%s_%s' % (wname, hname)

    def __call__(self, *a, **kw):
        self.world.hook_calls[(self.wname, self.hname)] += 1
        self.world.hook_log.append((round(self.world.now(), 6), self.wname, self.hname, self.outcome,
                                    {k: v for k, v in kw.items() if k in ('pid', 'signum')}))
        if '@' in self.outcome:
            # 'false@3' / 'raise@2': that outcome on the n-th invocation only, true otherwise (a transient fault)
            what, nth = self.outcome.split('@')
            if self.world.hook_calls[(self.wname, self.hname)] != int(nth):
                return True
            if what == 'raise':
                raise RuntimeError('scripted hook failure %s' % self.hname)
            return what == 'true'
        if self.outcome == 'exit':
            raise SystemExit(3)            # a hook that calls sys.exit()
        if self.outcome == 'raise':
            # alternately with and without a message (`raise RuntimeError`, a failing assert)
            if sum(self.world.hook_calls.values()) % 2:
                raise RuntimeError()
            raise RuntimeError('scripted hook failure %s' % self.hname)
        if self.outcome.startswith('true+'):
            # a hook that takes (virtual) time, e.g. a health probe: 'true+0.1'
            self.world.clock.now += float(self.outcome[5:])
            return True
        return self.outcome == 'true'


class FailingCloseStream:
    def __init__(self, n):
        self.left = n
        self.closed = 0

    def __call__(self, data):
        pass

    def close(self):
        if self.left > 0:
            self.left -= 1
            raise OSError(28, 'No space left on device')
        self.closed += 1


def make_watcher(world, conf):
    from circus.watcher import Watcher
    kw = {k: conf[k] for k in WATCHER_KEYS if k in conf and not (k == 'working_dir' and conf[k] is None)}
    hooks = {}
    for hname, (outcome, ignore) in (conf.get('hooks') or {}).items():
        hooks[hname] = (HookScript(world, conf['name'], hname, outcome), bool(ignore))
    if hooks:
        kw['hooks'] = hooks
    if conf.get('capture'):
        # captured output: circus creates pipes and a redirector for the workers (nothing is ever written in SIM)
        kw['stdout_stream'] = {'class': 'QueueStream'}
        if conf.get('capture') == 'both':
            kw['stderr_stream'] = {'class': 'QueueStream'}
    if conf.get('close_fails'):
        # an output stream whose close() fails the first N times (a log file on a full disk: ENOSPC at the last flush)
        kw['stdout_stream'] = {'stream': FailingCloseStream(conf['close_fails'])}
    cmd = conf.get('cmd', tag_of(conf['name']))
    world.confs[tag_of(conf['name'])] = conf
    return Watcher(conf['name'], cmd, **kw)


def new_world(spec):
    w = sim.World()
    w.hook_calls = collections.Counter()
    w.hook_log = []
    w.confs = {}
    w.tag_spawns = collections.Counter()
    k = w.kernel
    k.kill_latency = spec.get('kill_latency', 0.0)
    k.spawn_fail = set(spec.get('spawn_fail', []))
    k.spawn_fail_from = spec.get('spawn_fail_from')
    if spec.get('spawn_fail_errno'):
        k.spawn_fail_errno = int(spec['spawn_fail_errno'])

    def beh_for(argv, n):
        tag = argv[0] if argv else None
        conf = w.confs.get(tag)
        w.tag_spawns[tag] += 1
        if not conf or not conf.get('beh'):
            return {}
        lst = conf['beh']
        b = lst[(w.tag_spawns[tag] - 1) % len(lst)]
        out = {}
        for kk, v in b.items():
            out[int(kk) if str(kk).lstrip('-').isdigit() else kk] = tuple(v)
        return out

    def kids_for(argv, n):
        conf = w.confs.get(argv[0] if argv else None)
        return (conf or {}).get('kids', [])

    k.beh_for = beh_for
    k.kids_for = kids_for
    return w


@gen.coroutine
def boot(world, spec):
    ws = [make_watcher(world, c) for c in spec['watchers']]
    arb = world.make_arbiter(ws, **spec.get('arb', {}))
    yield arb.start()
    return arb


def pick(world, tag, k):
    live = world.kernel.live(tag_of(tag) if not tag.startswith('w_') else tag)
    if not live:
        return None
    return live[k % len(live)]


class Runner:
    """executes the steps of a history; property modules subclass or attach callbacks"""

    def __init__(self, world, spec):
        self.world, self.spec = world, spec
        self.mids = []          # (step index, mid, cmd, props)
        self.step_log = []

    @gen.coroutine
    def run_steps(self, steps=None, before=None, after=None):
        w = self.world
        steps = self.spec['steps'] if steps is None else steps
        for i, st in enumerate(steps):
            if w.stalled is not None:
                break
            if before:
                before(i, st)
            yield self.do(i, st)
            if after:
                after(i, st)

    @gen.coroutine
    def do(self, i, st):
        w = self.world
        k = w.kernel
        op = st[0]
        if op == 'req':
            mid = w.req(st[1], **dict(st[2]))
            self.mids.append((i, mid, st[1], st[2]))
        elif op == 'call':
            mid = w.req(st[1], **dict(st[2]))
            self.mids.append((i, mid, st[1], st[2]))
            waited = 0.0
            while w.reply(mid) is None and waited < 300 and w.stalled is None:
                yield gen.sleep(0.05)
                waited += 0.05
        elif op == 'raw':
            w.send_raw(st[1].encode('latin1') if isinstance(st[1], str) else st[1], mid=st[2] if len(st) > 2 else None)
        elif op == 'check':
            yield w.check()
        elif op == 'adv':
            yield w.advance(st[1])
        elif op == 'settle':
            yield w.settle(st[1] if len(st) > 1 else 120.0)
        elif op == 'die':
            pid = pick(w, st[1], st[2])
            if pid is not None:
                k.schedule_death(k.procs[pid], 0.0, st[3], 'self')
                k._settle()
        elif op == 'extkill':
            pid = pick(w, st[1], st[2])
            if pid is not None:
                k.kill(pid, st[3], sender='ext')
        elif op == 'inject_death':
            _, off, tag, kk, status = st[:5]
            cause = st[5] if len(st) > 5 else 'self'

            def f(kern, tag=tag, kk=kk, status=status, cause=cause):
                pid = pick(w, tag, kk)
                if pid is not None:
                    kern.schedule_death(kern.procs[pid], 0.0, status, cause)
            k.inject[k.calls + off] = f
        elif op == 'clockstep':
            # the administrator (or ntp) steps the wall clock; monotonic time goes on as before
            w.clock.wall_offset += st[1]
        elif op == 'inject_clockstep':
            _, off, delta = st

            def cs(kern, delta=delta):
                w.clock.wall_offset += delta
            prev = k.inject.get(k.calls + off)
            k.inject[k.calls + off] = cs if prev is None else (lambda kern, a=prev, b=cs: (a(kern), b(kern)))
        elif op == 'inject_req':
            _, poff, frac, cmd, props = st

            def g(cmd=cmd, props=props, i=i):
                def deliver():
                    if w.stalled is None and w.arb.ctrl.started:
                        mid = w.req(cmd, **dict(props))
                        self.mids.append((i, mid, cmd, props))
                w.aloop.call_soon(deliver)
            w.sel.hooks[w.sel.polls + poff] = (frac, g)
        elif op == 'quit_signal':
            # what SysHandler.quit does on the loop: dispatch a quit without a client id
            import zmq.utils.jsonapi as zjson
            w.arb.ctrl.dispatch((None, zjson.dumps({'command': 'quit', 'properties': {}})))
        else:
            raise ValueError('unknown step %r' % (st,))
        self.step_log.append((i, op))


def wstatus(kind, val):
    """wait status for exit code / terminating signal"""
    return (val & 0xff) << 8 if kind == 'exit' else int(val)


SIGKILL = int(signal.SIGKILL)
SIGTERM = int(signal.SIGTERM)


def kernel_sig(world, steps=None):
    """canonical trace: pids renamed in order of appearance, times bucketed to 0.1 s"""
    ren = {}
    out = []
    for e in world.kernel.log:
        t, kind, pid = e[0], e[1], e[2]
        if pid not in ren:
            ren[pid] = len(ren)
        rest = tuple(x for x in e[3:] if not isinstance(x, float))
        out.append((round((t - sim.EPOCH) * 10) / 10.0, kind, ren[pid]) + rest)
    return repr((out, [s[:2] for s in (steps or [])]))


def reported_numprocesses(world, name):
    """the numprocesses the daemon reports as configured (protocol: `get`)"""
    mid = world.req('get', name=name, keys=['numprocesses'])
    r = world.reply(mid)
    if isinstance(r, dict) and r.get('status') == 'ok':
        return r['options'].get('numprocesses')
    return None


def reported_status(world, name):
    mid = world.req('status', name=name)
    r = world.reply(mid)
    return r.get('status') if isinstance(r, dict) else None
