"""Kernel-model calibration: a table of (process state x API call) -> result | exception class,
evaluated against the REAL psutil/subprocess/os on real child processes and against the
simulated SimPopen/SimKernel.  A mismatch means the installed psutil/python changed (or the
model is wrong) — the SIM checks then refuse to give a verdict.  It can never fail because
/repo changed: nothing of circus is involved.
"""
import os
import signal
import sys
import time


def _t(out, label, f):
    try:
        r = f()
    except BaseException as e:   # noqa
        r = 'EXC:' + type(e).__name__
    out.append((label, r))


def _norm_status(s):
    return 'zombie' if s == 'zombie' else ('alive' if isinstance(s, str) and not s.startswith('EXC') else s)


class RealBackend:
    name = 'real'

    def __init__(self):
        import psutil
        self.psutil = psutil
        self.kids = []

    @staticmethod
    def _wait_zombie(pid, timeout=10.0):
        # state changes are awaited on /proc, not slept for: the table must not depend on the machine's load
        t0 = time.time()
        while time.time() - t0 < timeout:
            try:
                with open('/proc/%d/stat' % pid) as f:
                    st = f.read()
                if st[st.rfind(')') + 2] == 'Z':
                    return True
            except OSError:
                return True
            time.sleep(0.005)
        return False

    def spawn(self, code='import time; time.sleep(30)'):
        p = self.psutil.Popen([sys.executable, '-S', '-c', code])
        self.kids.append(p)
        if 'sys.exit' in code:
            self._wait_zombie(p.pid)
        else:
            time.sleep(0.05)
        return p

    def ext_kill(self, pid, sig):
        os.kill(pid, sig)
        self._wait_zombie(pid)

    def waitpid(self, pid):
        return os.waitpid(pid, os.WNOHANG)

    def cleanup(self):
        for p in self.kids:
            try:
                os.kill(p.pid, 9)
            except OSError:
                pass
            try:
                os.waitpid(p.pid, 0)
            except OSError:
                pass


class SimBackend:
    name = 'sim'

    def __init__(self):
        from vlib import sim
        self.sim = sim
        self.world = sim.World()

    def spawn(self, code=None):
        p = self.sim.SimPopen(['x'])
        if code and 'sys.exit(3)' in code:
            k = self.world.kernel
            k.schedule_death(k.procs[p.pid], 0.0, 3 << 8, 'self')
            k._settle()
        return p

    def ext_kill(self, pid, sig):
        self.world.kernel.kill(pid, sig, sender='ext')

    def waitpid(self, pid):
        return self.world.kernel.waitpid(pid, os.WNOHANG)

    def cleanup(self):
        self.world.close()


def battery(b):
    out = []
    psn = lambda p: (lambda: _norm_status(p.status()))   # noqa: E731
    # A: running child
    p = b.spawn()
    _t(out, 'A.status', psn(p)); _t(out, 'A.is_running', p.is_running); _t(out, 'A.poll', p.poll)
    _t(out, 'A.waitpid', lambda: b.waitpid(p.pid) == (0, 0)); _t(out, 'A.children', lambda: len(p.children()))
    _t(out, 'A.children_rec', lambda: len(p.children(recursive=True)))
    _t(out, 'A.sig0', lambda: p.send_signal(0))
    # B: killed -9, not reaped
    b.ext_kill(p.pid, 9)
    _t(out, 'B.status', psn(p)); _t(out, 'B.is_running', p.is_running)
    _t(out, 'B.children', lambda: len(p.children())); _t(out, 'B.send_signal15', lambda: p.send_signal(15))
    _t(out, 'B.terminate', p.terminate)
    _t(out, 'B.waitpid', lambda: b.waitpid(p.pid) == (p.pid, 9))
    _t(out, 'B2.poll', p.poll); _t(out, 'B2.returncode', lambda: p.returncode)
    _t(out, 'B2.status', psn(p)); _t(out, 'B2.is_running', p.is_running)
    _t(out, 'B2.send_signal', lambda: p.send_signal(15)); _t(out, 'B2.terminate', p.terminate)
    _t(out, 'B2.children', lambda: len(p.children())); _t(out, 'B2.waitpid', lambda: b.waitpid(p.pid))
    # C: killed 15, poll() first
    p = b.spawn()
    b.ext_kill(p.pid, 15)
    _t(out, 'C.poll', p.poll); _t(out, 'C.returncode', lambda: p.returncode)
    _t(out, 'C.waitpid', lambda: b.waitpid(p.pid)); _t(out, 'C.status', psn(p))
    _t(out, 'C.is_running', p.is_running); _t(out, 'C.send_signal', lambda: p.send_signal(15))
    _t(out, 'C.children', lambda: len(p.children())); _t(out, 'C.poll2', p.poll)
    # D: exit code 3 reaped by waitpid(-1)
    p = b.spawn('import sys; sys.exit(3)')
    _t(out, 'D.status', psn(p))
    _t(out, 'D.waitpid-1', lambda: (lambda r: (r[0] == p.pid, r[1]))(os.waitpid(-1, os.WNOHANG) if b.name == 'real'
                                                                     else b.world.kernel.waitpid(-1, os.WNOHANG)))
    _t(out, 'D.poll', p.poll); _t(out, 'D.returncode', lambda: p.returncode)
    _t(out, 'D.waitpid-1-again', lambda: (os.waitpid(-1, os.WNOHANG) if b.name == 'real'
                                          else b.world.kernel.waitpid(-1, os.WNOHANG)))
    _t(out, 'D.is_running', p.is_running)
    # E: zombie, poll first -> reaps with the real status
    p = b.spawn()
    b.ext_kill(p.pid, 9)
    _t(out, 'E.is_running_zombie', p.is_running)
    _t(out, 'E.poll', p.poll); _t(out, 'E.is_running', p.is_running); _t(out, 'E.status', psn(p))
    _t(out, 'E.kill', p.kill)
    b.cleanup()
    return out


def calibrate():
    """-> None if the model matches the real API, else a description of the first mismatches"""
    bad = None
    for attempt in range(3):
        real = battery(RealBackend())
        sim = battery(SimBackend())
        bad = [(a, b) for a, b in zip(real, sim) if a != b]
        if not bad and len(real) == len(sim):
            return None
    return 'kernel model mismatch (real, sim): %r' % bad[:6]


if __name__ == '__main__':
    sys.path.insert(0, os.path.dirname(os.path.dirname(os.path.abspath(__file__))))
    r = calibrate()
    if r:
        print('CALIBRATION FAILED:', r)
        sys.exit(3)
    print('kernel model calibration: %d table entries match the real psutil/subprocess/os' % len(battery(SimBackend())))
