#!/venv/bin/python -S
"""Probe worker for the LIVE engine.  Behaviour chosen by argv (a JSON object as argv[1]):

  log        directory for per-pid files  <log>/<pid>.sig (one line per received signal),
             <log>/<pid>.up (written when the handlers are installed), <log>/<pid>.dump.json
  ignore     [signal numbers] trapped and ignored (logged)
  die        {"15": 0.2}  on that signal: exit by the signal's default action after the delay
  exit       {"15": [0.1, 3]}  on that signal: exit with the code after the delay
  self_exit  [delay, code]   exit by itself
  fork       number of children to fork (each a probe worker ignoring everything in `kid_ignore`)
  kid_ignore [signal numbers]
  dump       true: write argv, cwd, open descriptors (with socket inodes) to <pid>.dump.json
  accept     true: accept (and drop) every connection on the listening descriptor given as `--fd N` after argv[1]
  out        {"stdout": [[size, pause_ms], ...], "stderr": [...], "tag": "x", "close_stdout_after": n}
             scripted output: records "[pid|channel|seq|len]payload\n"

Everything after argv[1] is ignored (so watcher cmd/args substitution can be observed in the dump).
"""
import json
import os
import signal
import sys
import time


def record(pid, ch, seq, size):
    """the seq-th record a worker writes on channel ch: self-describing, exactly max(size, header+1) bytes"""
    head = '[%d|%s|%d|%d]' % (pid, ch, seq, size)
    body = (head + 'abcdefghij'[seq % 10] * max(0, size - len(head) - 1))[:max(size - 1, len(head))] + '\n'
    return body.encode()


def main():
    spec = json.loads(sys.argv[1]) if len(sys.argv) > 1 and sys.argv[1].startswith('{') else {}
    log = spec.get('log') or '/tmp'
    pid = os.getpid()
    # "once": the first generation behaves per spec, every later generation per spec['then']
    if spec.get('once_marker'):
        if os.path.exists(spec['once_marker']):
            then = dict(spec.get('then') or {})
            then.setdefault('log', log)
            spec = then
        else:
            open(spec['once_marker'], 'w').close()
    sigf = os.path.join(log, '%d.sig' % pid)
    pending = []

    def note(sig):
        with open(sigf, 'a') as f:
            f.write('%d %.4f\n' % (sig, time.monotonic()))

    ignore = set(spec.get('ignore', []))
    die = {int(k): v for k, v in spec.get('die', {}).items()}
    exi = {int(k): v for k, v in spec.get('exit', {}).items()}

    def handler(sig, frame):
        note(sig)
        if sig in die:
            pending.append((time.monotonic() + die[sig], 'die', sig))
        elif sig in exi:
            pending.append((time.monotonic() + exi[sig][0], 'exit', exi[sig][1]))

    for s in set(ignore) | set(die) | set(exi) | set(spec.get('trap', [])):
        try:
            signal.signal(s, handler)
        except (OSError, ValueError):
            pass
    kids = []
    for i in range(spec.get('fork', 0)):
        k = os.fork()
        if k == 0:
            for s in spec.get('kid_ignore', []):
                signal.signal(s, lambda sig, fr: open(os.path.join(log, '%d.sig' % os.getpid()), 'a').write(
                    '%d %.4f\n' % (sig, time.monotonic())))
            open(os.path.join(log, '%d.kidof.%d' % (os.getpid(), pid)), 'w').close()
            while True:
                time.sleep(0.05)
        kids.append(k)
    if spec.get('dump'):
        fds = {}
        for fd in os.listdir('/proc/self/fd'):
            try:
                tgt = os.readlink('/proc/self/fd/' + fd)
            except OSError:
                continue
            fds[fd] = tgt
        with open(os.path.join(log, '%d.dump.json' % pid), 'w') as f:
            json.dump({'argv': sys.argv, 'cwd': os.getcwd(), 'fds': fds, 'ppid': os.getppid()}, f)
    with open(os.path.join(log, '%d.up' % pid), 'w') as f:
        f.write('%.4f\n' % time.monotonic())
    t0 = time.monotonic()
    se = spec.get('self_exit')
    out = spec.get('out')
    writers = []
    if out:
        for ch, fd in (('stdout', 1), ('stderr', 2)):
            if out.get(ch):
                writers.append([ch, fd, list(out[ch]), 0, time.monotonic()])
    written = {'stdout': 0, 'stderr': 0}
    lsock = None
    if spec.get('accept') and '--fd' in sys.argv:
        import socket
        try:
            lsock = socket.socket(fileno=os.dup(int(sys.argv[sys.argv.index('--fd') + 1])))
            lsock.setblocking(False)
        except (OSError, ValueError, IndexError):
            lsock = None
    while True:
        now = time.monotonic()
        if lsock is not None:
            try:
                conn, _ = lsock.accept()
                conn.close()
                with open(os.path.join(log, '%d.accepted' % pid), 'a') as f:
                    f.write('%.4f\n' % now)
            except OSError:
                pass
        for p in list(pending):
            if now >= p[0]:
                if p[1] == 'die':
                    signal.signal(p[2], signal.SIG_DFL)
                    os.kill(pid, p[2])
                    time.sleep(1)
                else:
                    os._exit(p[2])
        if se and now - t0 >= se[0]:
            os._exit(se[1])
        busy = False
        for wri in writers:
            ch, fd, script, seq, nxt = wri
            if script and now >= nxt:
                size, pause = script.pop(0)
                data = record(pid, ch, seq, size)
                off = 0
                try:
                    while off < len(data):
                        off += os.write(fd, data[off:])
                except OSError as e:
                    script[:] = []
                    with open(os.path.join(log, '%d.writefail' % pid), 'a') as f:
                        f.write('%s %d %d\n' % (ch, e.errno or 0, seq))
                written[ch] += len(data)
                wri[3] = seq + 1
                wri[4] = time.monotonic() + pause / 1000.0
                busy = True
                if not script:
                    with open(os.path.join(log, '%d.written.%s' % (pid, ch)), 'w') as f:
                        f.write('%d %d\n' % (written[ch], seq + 1))
                    if out.get('close_after') == ch:
                        os.close(fd)
        if not busy:
            time.sleep(0.01)


if __name__ == '__main__':
    main()
