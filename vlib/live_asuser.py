"""Start circusd as an unprivileged user.  The interpreter of this image lives under /root (mode 0700), which another
user cannot even traverse: everything the daemon may import is loaded first, then the privileges are dropped for good and
the real entry point runs.   usage: live_asuser.py <uid> <circusd arguments...>"""
import os
import pkgutil
import sys


def preload():
    import encodings.idna                                        # noqa: F401
    import logging.handlers                                      # noqa: F401
    import logging.config                                        # noqa: F401
    import asyncio                                               # noqa: F401
    import zmq                                                   # noqa: F401
    import zmq.eventloop.zmqstream                               # noqa: F401
    import tornado.ioloop                                        # noqa: F401
    import tornado.platform.asyncio                              # noqa: F401
    import psutil                                                # noqa: F401
    import circus.circusd                                        # noqa: F401
    import circus.pidfile                                        # noqa: F401
    import circus.stream                                         # noqa: F401
    import circus.plugins                                        # noqa: F401
    import circus.commands
    for m in pkgutil.iter_modules(circus.commands.__path__):
        __import__('circus.commands.' + m.name)


if __name__ == '__main__':
    uid = int(sys.argv[1])
    preload()
    os.setgroups([])
    os.setgid(uid)
    os.setuid(uid)
    assert os.getuid() == uid and os.geteuid() == uid
    sys.argv = ['circusd'] + sys.argv[2:]
    import circus.circusd
    sys.exit(circus.circusd.main())
