"""SIM engine: the real circus Arbiter/Watcher/Process/Controller running on a
virtual-time asyncio loop, a simulated kernel and fake ZeroMQ sockets.

Nothing in /repo is edited: the observation points are module attributes of the
circus modules that are looked up at call time (circus.watcher.os / time,
circus.process.Popen / time, circus.arbiter.os / time / zmq,
circus.controller.zmqstream / SysHandler / os, circus.commands.base.time).

One `World` = one simulated machine + one daemon.  Worlds are created per
history; the module-level rebinding is done once per process and dispatches to
the world that is current.
"""
import asyncio
import errno
import json
import os
import selectors
import signal
import sys
import time as _realtime
import types

from vlib.common import repo_dir

sys.path.insert(0, repo_dir())

import psutil                      # noqa: E402
from tornado import gen, ioloop    # noqa: E402

EPOCH = 1_000_000.0
DAEMON_PID = 0          # ppid value that means "child of the daemon"

_CUR = None             # the current World


def cur():
    return _CUR


class Stalled(Exception):
    """The daemon's event loop can make no further progress."""


# ------------------------------------------------------------------ clock
class Clock:
    def __init__(self):
        self.now = EPOCH          # monotonic virtual time: the loop's clock, the kernel ledger, every oracle
        self.wall_offset = 0.0    # what time.time() is ahead of / behind it (the wall clock can be stepped)
        self.blocked = 0.0        # virtual seconds slept inside the current loop iteration
        self.max_blocked = 0.0    # maximum over the run
        self.block_sites = {}     # site -> max blocked seen
        self.block_pids = {}      # site -> (pid waited for, time the block began)


def _circus_stack(limit=8, info=None):
    """function names of the circus frames on the stack, innermost first"""
    out = []
    f = sys._getframe(2)
    root = repo_dir()
    while f is not None and len(out) < limit:
        fn = f.f_code.co_filename
        if fn.startswith(root) and '/circus/' in fn:
            name = f.f_code.co_name
            if name not in ('_log', 'wrapper') and (not out or out[-1] != name):
                out.append(name)
                if info is not None and 'pid' not in info and isinstance(f.f_locals.get('pid'), int):
                    info['pid'] = f.f_locals['pid']
        f = f.f_back
    return out


class VTime(types.ModuleType):
    """stand-in for the `time` module inside the circus modules"""
    STALL_BUDGET = 5.0

    def __init__(self):
        super().__init__('time')

    def time(self):
        c = _CUR.clock
        c.now += 1e-6           # two reads never tie (real clocks do not, at the
        return c.now + c.wall_offset     # granularity circus sorts Process.started on)

    def monotonic(self):
        c = _CUR.clock
        c.now += 1e-6
        return c.now            # never stepped

    def sleep(self, d):
        w = _CUR
        c = w.clock
        c.now += d
        c.blocked += d
        if c.blocked > c.max_blocked:
            c.max_blocked = c.blocked
        if c.blocked > 0.05:
            info = {}
            site = '<-'.join(_circus_stack(info=info))
            if c.blocked > c.block_sites.get(site, 0):
                c.block_sites[site] = c.blocked
                c.block_pids[site] = (info.get('pid'), c.now - c.blocked)
        if c.blocked > self.STALL_BUDGET:
            info = {}
            site = '<-'.join(_circus_stack(info=info))
            if w.stalled is None:
                w.stalled = {'site': site, 't': round(c.now - EPOCH, 4), 'pid': info.get('pid'),
                             't_block': c.now - c.blocked,
                             'why': 'blocked in time.sleep for %.1fs of virtual time inside one '
                                    'loop iteration' % c.blocked}
            raise Stalled(site)

    def __getattr__(self, n):
        return getattr(_realtime, n)


class VirtualSelector:
    """Wraps a real selector: never blocks; when asked to wait, advances the
    virtual clock instead.  Every call is a numbered *selector poll*, the only
    place where the real daemon can discover a new request."""

    def __init__(self, world):
        self._sel = selectors.DefaultSelector()
        self.world = world
        self.polls = 0
        self.hooks = {}        # poll number -> (fraction, callable)
        self.any_hook = None   # callable(poll_no) -> bool (True = something injected)

    def __getattr__(self, n):
        return getattr(self._sel, n)

    def select(self, timeout=None):
        w = self.world
        self.polls += 1
        w.clock.blocked = 0.0
        w.kernel.calls_this_iteration = 0
        injected = False
        h = self.hooks.pop(self.polls, None)
        if h is not None:
            frac, fn = h
            if timeout and timeout > 0 and frac:
                w.clock.now += timeout * frac
            fn()
            injected = True
        if self.any_hook is not None:
            injected = bool(self.any_hook(self.polls)) or injected
        ev = self._sel.select(0)
        if ev or injected:
            return ev
        if timeout is None:
            if w.stalled is None:
                w.stalled = {'site': 'idle', 't': round(w.clock.now - EPOCH, 4),
                             'why': 'virtual loop idle forever'}
            raise Stalled('idle')
        if timeout > 0:
            w.clock.now += timeout
        return ev


class VLoop(asyncio.SelectorEventLoop):
    def __init__(self, world):
        self._world = world
        super().__init__(VirtualSelector(world))

    def time(self):
        return self._world.clock.now


# ------------------------------------------------------------------ kernel
class P:
    __slots__ = ('pid', 'ppid', 'argv', 'env', 'cwd', 'beh', 'state', 'death_at', 'status',
                 'created', 'signals', 'popen_kw', 'tag', 'exit_t', 'reaped_by', 'cause',
                 'spawn_no', 'orig_ppid')

    def __init__(self, pid, ppid, argv, env, cwd, beh, now):
        self.pid, self.ppid, self.argv, self.env, self.cwd = pid, ppid, argv, env, cwd
        self.beh = beh            # {signum: ('die', d) | ('exit', d, code) | ('ignore',)}
        self.state = 'running'    # running | zombie | gone
        self.death_at = None
        self.status = None        # 16-bit wait status
        self.created = now
        self.signals = []         # (t, sig, sender)
        self.popen_kw = {}
        self.tag = None
        self.exit_t = None
        self.reaped_by = None
        self.cause = None         # 'self' | 'ext' | 'circus:<sig>'
        self.spawn_no = 0
        self.orig_ppid = ppid


DEFAULT_FATAL = {int(s) for s in (signal.SIGTERM, signal.SIGINT, signal.SIGQUIT, signal.SIGHUP,
                                  signal.SIGUSR1, signal.SIGUSR2, signal.SIGALRM, signal.SIGPIPE,
                                  signal.SIGABRT, signal.SIGSEGV, signal.SIGBUS, signal.SIGFPE,
                                  signal.SIGILL, signal.SIGTRAP, signal.SIGSYS, signal.SIGXCPU,
                                  signal.SIGXFSZ, signal.SIGVTALRM, signal.SIGPROF, signal.SIGIO,
                                  signal.SIGPWR, signal.SIGSTKFLT)}


class SimKernel:
    def __init__(self, world):
        self.world = world
        self.clock = world.clock
        self.procs = {}
        self.next_pid = 40000       # above pid_max (32768): can never name a real process
        self.log = []            # (t, kind, pid, ...) kinds: spawn signal exit reaped
        self.calls = 0           # numbered kernel-call boundaries
        self.inject = {}         # boundary number -> callable(kernel)
        self.beh_for = lambda argv, n: {}     # behaviour chooser (argv, spawn_no)
        self.kids_for = lambda argv, n: []    # children spec chooser
        self.spawn_fail = set()  # spawn attempt numbers that raise OSError
        self.spawn_fail_errno = errno.ENOENT
        self.spawn_fail_cmds = set()     # programs that do not exist (every spawn of them fails with ENOENT)
        self.spawn_fail_from = None      # every attempt from this number on fails (a failure that does not go away)
        self.calls_this_iteration = 0
        self.pipe_files = []     # read ends handed to circus (closed with the world if circus did not)
        self.pipes = []          # [write fd, set of pids holding it open]: a pipe is at EOF when nobody holds it
        self.spawn_attempts = 0
        self.kill_latency = 0.0  # delay between SIGKILL and the process being a zombie
        self.call_names = []     # optional record of boundary names
        self.record_calls = False

    # -- internals
    SPIN_LIMIT = 5000

    def _enter(self, name):
        self.calls += 1
        # a loop iteration that makes thousands of kernel calls without ever returning to the selector is a busy
        # loop: nothing else (requests, checks, timers) can run while it lasts
        self.calls_this_iteration += 1
        if self.calls_this_iteration > self.SPIN_LIMIT and name == 'spawn':
            w = self.world
            if w.stalled is None:
                site = '<-'.join(_circus_stack()) or name
                w.stalled = {'site': 'spin@' + site, 't': round(self.clock.now - EPOCH, 4), 'pid': None,
                             't_block': self.clock.now,
                             'why': '%d kernel calls (last: %s) inside one loop iteration' % (self.calls_this_iteration, name)}
            raise Stalled('spin')
        if self.record_calls:
            self.call_names.append(name)
        f = self.inject.pop(self.calls, None)
        if f is not None:
            f(self)
        self._settle()

    def _settle(self):
        now = self.clock.now
        again = True
        while again:
            again = False
            for p in list(self.procs.values()):
                if p.state == 'running' and p.death_at is not None and p.death_at <= now:
                    p.state = 'zombie' if (p.ppid == DAEMON_PID) else 'gone'
                    p.exit_t = p.death_at
                    self._release_pipes(p.pid)
                    self.log.append((p.death_at, 'exit', p.pid, p.status, p.cause))
                    for c in self.procs.values():
                        if c.ppid == p.pid:
                            c.ppid = 1      # re-parented to init, keeps running

    def _release_pipes(self, pid):
        for ent in self.pipes:
            if pid in ent[1]:
                ent[1].discard(pid)
                if not ent[1] and ent[0] is not None:
                    try:
                        os.close(ent[0])
                    except OSError:
                        pass
                    ent[0] = None

    def close_pipes(self):
        for ent in self.pipes:
            if ent[0] is not None:
                try:
                    os.close(ent[0])
                except OSError:
                    pass
                ent[0] = None
        for f in self.pipe_files:
            try:
                f.close()
            except OSError:
                pass
        self.pipe_files = []

    def schedule_death(self, p, delay, status, cause):
        t = self.clock.now + delay
        if p.state == 'running' and (p.death_at is None or t < p.death_at):
            p.death_at, p.status, p.cause = t, status, cause

    # -- API used by the stand-ins
    def spawn(self, argv, env, cwd, ppid=DAEMON_PID, beh=None, tag=None):
        if ppid == DAEMON_PID:
            self._enter('spawn')
            self.spawn_attempts += 1
            if self.spawn_attempts in self.spawn_fail or (self.spawn_fail_from and self.spawn_attempts >= self.spawn_fail_from):
                raise OSError(self.spawn_fail_errno, os.strerror(self.spawn_fail_errno) + ' (injected)')
            if self.spawn_fail_cmds and argv and str(argv[0]).split()[:1] and str(argv[0]).split()[0] in self.spawn_fail_cmds:
                raise OSError(errno.ENOENT, 'No such file or directory: %r' % argv[0])
        pid = self.next_pid
        self.next_pid += 1
        if beh is None:
            beh = self.beh_for(argv, self.spawn_attempts)
        p = P(pid, ppid, list(argv), env, cwd, beh, self.clock.now)
        p.spawn_no = self.spawn_attempts if ppid == DAEMON_PID else 0
        p.tag = tag if tag is not None else (argv[0] if argv else None)
        self.procs[pid] = p
        self.log.append((self.clock.now, 'spawn', pid, p.tag, ppid))
        if ppid == DAEMON_PID:
            se = beh.get('self_exit')
            if se:
                self.schedule_death(p, se[0], se[1], 'self')
            for kid in self.kids_for(argv, self.spawn_attempts):
                self._spawn_tree(pid, kid, p.tag)
        return p

    def _spawn_tree(self, ppid, spec, tag):
        # spec: {'beh': {...}, 'kids': [spec, ...]}
        c = self.spawn(['kid'], None, None, ppid=ppid, beh=spec.get('beh', {}), tag='kid:' + str(tag))
        for k in spec.get('kids', []):
            self._spawn_tree(c.pid, k, tag)

    def kill(self, pid, sig, sender='circus'):
        self._enter('kill')
        p = self.procs.get(pid)
        if p is None or p.state == 'gone':
            raise ProcessLookupError(errno.ESRCH, 'No such process')
        sig = int(sig)
        self.log.append((self.clock.now, 'signal', pid, sig, sender, p.state))
        p.signals.append((self.clock.now, sig, sender))
        if sig == 0 or p.state == 'zombie':
            return
        cause = 'ext' if sender != 'circus' else 'circus:%d' % sig
        if sig == signal.SIGKILL:
            self.schedule_death(p, self.kill_latency if sender == 'circus' else 0.0,
                                int(signal.SIGKILL), cause)
        elif sig in (signal.SIGSTOP, signal.SIGCONT, signal.SIGCHLD, signal.SIGWINCH,
                     signal.SIGURG, signal.SIGTSTP, signal.SIGTTIN, signal.SIGTTOU):
            pass
        else:
            r = p.beh.get(sig)
            if r is None:
                r = p.beh.get(str(sig))
            if r is None:
                r = ('die', 0.0) if (sig in DEFAULT_FATAL or sig >= 34) else ('ignore',)
            if r[0] == 'die':
                self.schedule_death(p, r[1], sig, cause)
            elif r[0] == 'exit':
                self.schedule_death(p, r[1], (r[2] & 0xff) << 8, cause)
            elif r[0] == 'fork':
                # the process takes the signal as "start another helper" and otherwise goes on: a child that did
                # not exist when the signal was sent
                n0 = set(self.procs)
                self._spawn_tree(p.pid, {'beh': {'*': ['ignore']}}, str(p.tag).replace('kid:', ''))
                for np_ in set(self.procs) - n0:
                    self.procs[np_].popen_kw = {'forked_on_signal': (self.clock.now, sig)}
        self._settle()

    def waitpid(self, pid, flags):
        self._enter('waitpid')
        assert flags & os.WNOHANG, 'circus only ever waits with WNOHANG'
        if pid == -1:
            kids = [p for p in self.procs.values() if p.ppid == DAEMON_PID and p.state != 'gone']
            if not kids:
                raise ChildProcessError(errno.ECHILD, 'No child processes')
            for p in kids:
                if p.state == 'zombie':
                    return self._reap(p, 'waitpid(-1)')
            return 0, 0
        p = self.procs.get(pid)
        if p is None or p.state == 'gone' or p.ppid != DAEMON_PID:
            raise ChildProcessError(errno.ECHILD, 'No child processes')
        if p.state == 'zombie':
            return self._reap(p, 'waitpid(pid)')
        return 0, 0

    def _reap(self, p, by):
        p.state = 'gone'
        p.reaped_by = by
        self.log.append((self.clock.now, 'reaped', p.pid, p.status, by))
        return p.pid, p.status

    def pstate(self, pid):
        self._enter('stat')
        p = self.procs.get(pid)
        return 'gone' if p is None else p.state

    def children(self, pid, recursive=False):
        self._enter('children')
        out, stack = [], [pid]
        while stack:
            x = stack.pop()
            for c in self.procs.values():
                if c.ppid == x and c.state == 'running' and x != DAEMON_PID:
                    out.append(c.pid)
                    if recursive:
                        stack.append(c.pid)
        return out

    # -- oracle-side views (not kernel calls; no boundary)
    def live(self, tag=None):
        self._settle()
        return sorted(p.pid for p in self.procs.values()
                      if p.state == 'running' and p.spawn_no and (tag is None or p.tag == tag))

    def zombies(self):
        self._settle()
        return sorted(p.pid for p in self.procs.values() if p.state == 'zombie')

    def daemon_children(self):
        """every process ever spawned by the daemon: pid -> P"""
        return {p.pid: p for p in self.procs.values() if p.spawn_no}

    def killpg(self, pgid, sig):
        leader = self.procs.get(pgid)
        members = ([pgid] if leader is not None and leader.state != 'gone' else []) + \
            sorted(d for d in self.descendants(pgid) if self.procs[d].state != 'gone')
        if not members:
            raise ProcessLookupError(errno.ESRCH, 'No such process')
        for m in members:
            try:
                self.kill(m, sig)
            except ProcessLookupError:
                pass

    def descendants(self, pid):
        out, stack = set(), [pid]
        while stack:
            x = stack.pop()
            for c in self.procs.values():
                if c.ppid == x and c.pid not in out and x != DAEMON_PID:
                    out.add(c.pid)
                    stack.append(c.pid)
        return out


class ProcOs:
    """stand-in for `os` inside circus.process: signals sent with os.kill / os.killpg go to the simulated kernel (a
    worker is the leader of its own process group, its descendants are the members)"""

    def kill(self, pid, sig):
        return _CUR.kernel.kill(pid, sig)

    def killpg(self, pgid, sig):
        return _CUR.kernel.killpg(pgid, sig)

    def __getattr__(self, n):
        return getattr(os, n)


class RedirOs:
    """stand-in for `os` inside circus.stream.redirector: a read on a pipe that is empty while somebody still holds
    its write end would block the daemon's only thread for ever -- reported as a stall instead of hanging the run"""

    def read(self, fd, n):
        w = _CUR
        if w is not None:
            import select as _select
            try:
                ready = _select.select([fd], [], [], 0)[0]
            except (OSError, ValueError):
                ready = [fd]
            if not ready:
                site = '<-'.join(_circus_stack()) or 'os.read'
                if w.stalled is None:
                    w.stalled = {'site': 'os.read@' + site, 't': round(w.clock.now - EPOCH, 4), 'pid': None,
                                 't_block': w.clock.now,
                                 'why': 'blocking read on an empty pipe whose write end is still held open'}
                raise Stalled('os.read')
        return os.read(fd, n)

    def __getattr__(self, n):
        return getattr(os, n)


class SimOs:
    """stand-in for `os` inside circus.watcher / circus.arbiter / circus.controller"""

    def waitpid(self, pid, flags):
        return _CUR.kernel.waitpid(pid, flags)

    def chown(self, *a, **kw):
        _CUR.chowns.append(a)

    def __getattr__(self, n):
        return getattr(os, n)


class _MemInfo(tuple):
    rss = property(lambda s: s[0])
    vms = property(lambda s: s[1])


class SimChild:
    """what psutil's Process.children() returns"""

    def __init__(self, k, pid):
        self._k, self.pid = k, pid

    def send_signal(self, sig):
        try:
            self._k.kill(self.pid, sig)
        except ProcessLookupError:
            raise psutil.NoSuchProcess(self.pid)

    def _info(self, what):
        if self._k.pstate(self.pid) != 'running':
            raise psutil.NoSuchProcess(self.pid)
        return what

    def memory_info(self): return self._info(_MemInfo((1 << 20, 4 << 20)))
    def cpu_percent(self, interval=None): return self._info(0.0)
    def memory_percent(self): return self._info(0.1)
    def cpu_times(self): return self._info((0.01, 0.01))
    def username(self): return self._info('root')
    def nice(self): return self._info(0)
    def cmdline(self): return self._info(['kid'])
    def create_time(self): return self._info(self._k.procs[self.pid].created)

    def children(self, recursive=False):
        return [SimChild(self._k, c) for c in self._k.children(self.pid, recursive)]


class SimPopen:
    """mirrors psutil.Popen as used by circus.process.Process (checked against the real
    psutil/subprocess by vlib.calibrate)"""

    def __init__(self, args, cwd=None, shell=False, preexec_fn=None, env=None,
                 close_fds=True, executable=None, stdout=None, stderr=None, **other):
        k = _CUR.kernel
        self._k = k
        argv = list(args) if not isinstance(args, str) else [args]
        p = k.spawn(argv, dict(env) if env is not None else None, cwd)
        p.popen_kw = dict(shell=shell, close_fds=close_fds, executable=executable,
                          stdout=stdout, stderr=stderr, preexec=preexec_fn is not None,
                          other=sorted(other))
        self._p = p
        self.pid = p.pid
        self.returncode = None
        self.stdout = self.stderr = None
        # stdout/stderr=PIPE: hand circus a real pipe so that its redirector code runs.  Nothing is ever written to
        # it; the write end stays open for as long as the worker or one of the descendants it had at spawn time
        # (they inherit the descriptor) is alive, then the pipe is at EOF -- as with real processes
        from subprocess import PIPE
        for attr, val in (('stdout', stdout), ('stderr', stderr)):
            if val == PIPE:
                r, w_ = os.pipe()
                holders = {p.pid} | set(d for d in k.descendants(p.pid) if k.procs[d].state == 'running')
                k.pipes.append([w_, holders])
                setattr(self, attr, os.fdopen(r, 'rb', 0))
                k.pipe_files.append(getattr(self, attr))
        self._gone = False

    def poll(self):
        if self.returncode is not None:
            return self.returncode
        try:
            pid, sts = self._k.waitpid(self.pid, os.WNOHANG)
            if pid == self.pid:
                self._p.reaped_by = 'poll'
                self.returncode = os.waitstatus_to_exitcode(sts)
        except ChildProcessError:
            self.returncode = 0
        return self.returncode

    def wait(self, timeout=None):
        r = self.poll()
        if r is None:
            raise psutil.TimeoutExpired(timeout, self.pid)
        return r

    def send_signal(self, sig):
        if self._gone:
            raise psutil.NoSuchProcess(self.pid)
        try:
            self._k.kill(self.pid, sig)
        except ProcessLookupError:
            self._gone = True
            raise psutil.NoSuchProcess(self.pid)

    def terminate(self):
        self.send_signal(signal.SIGTERM)

    def kill(self):
        self.send_signal(signal.SIGKILL)

    def status(self):
        st = self._k.pstate(self.pid)
        if st == 'gone':
            raise psutil.NoSuchProcess(self.pid)
        return psutil.STATUS_ZOMBIE if st == 'zombie' else psutil.STATUS_SLEEPING

    def is_running(self):
        if self._gone:
            return False
        st = self._k.pstate(self.pid)
        if st == 'gone':
            self._gone = True
            return False
        return True

    def children(self, recursive=False):
        if self._k.pstate(self.pid) == 'gone':
            raise psutil.NoSuchProcess(self.pid)
        return [SimChild(self._k, c) for c in self._k.children(self.pid, recursive)]

    # read-only calls behind the `stats` command
    def _info(self, what, zombie_ok=False):
        st = self._k.pstate(self.pid)
        if st == 'gone':
            raise psutil.NoSuchProcess(self.pid)
        if st == 'zombie' and not zombie_ok:
            raise psutil.ZombieProcess(self.pid)
        return what

    def memory_info(self): return self._info(_MemInfo((1 << 20, 4 << 20)))
    def cpu_percent(self, interval=None): return self._info(0.0, True)
    def memory_percent(self): return self._info(0.1)
    def cpu_times(self): return self._info((0.01, 0.01), True)
    def username(self): return self._info('root', True)
    def nice(self): return self._info(0, True)
    def cmdline(self): return self._info(list(self._p.argv))
    def create_time(self): return self._info(self._p.created, True)


# ------------------------------------------------------------------ fake zmq
class FakeSocket:
    def __init__(self, world, kind):
        self.world, self.kind, self.closed, self.sent, self.linger = world, kind, False, [], 0
        self.ep = None

    def bind(self, ep):
        self.ep = ep

    def close(self, linger=None):
        self.closed = True

    def setsockopt(self, *a):
        pass

    def send_multipart(self, parts, *a, **kw):
        self.sent.append((self.world.clock.now, list(parts)))


class FakeContext:
    def __init__(self, world):
        self.world = world
        self.socks = []

    def socket(self, kind):
        s = FakeSocket(self.world, kind)
        self.socks.append(s)
        return s

    def destroy(self, *a):
        pass

    def term(self):
        pass


class FakeStream:
    def __init__(self, sock, loop=None):
        self.sock, self.frames, self.cb = sock, [], None
        self.closed = False
        w = _CUR
        w.streams.append(self)

    def on_recv(self, cb):
        self.cb = cb

    def send(self, data, flags=0, **kw):
        w = _CUR
        self.frames.append((w.clock.now, w.loop_iter(), data, flags))
        if not flags and w.reply_hooks:
            try:
                body = json.loads(data)
            except Exception:
                body = None
            for cb in list(w.reply_hooks):
                cb(body)

    def flush(self, *a, **kw):
        pass

    def close(self, *a, **kw):
        self.closed = True


class _ZmqShim(types.ModuleType):
    def __init__(self):
        super().__init__('zmq')
        import zmq
        self._zmq = zmq

        class Context:
            @staticmethod
            def instance():
                return _CUR.context
        self.Context = Context

    def __getattr__(self, n):
        return getattr(self._zmq, n)


class NoSysHandler:
    def __init__(self, controller):
        self.controller = controller

    def stop(self):
        pass


_INSTALLED = False
_AUDIT = {'on': False, 'hits': []}


class ContainmentBreach(RuntimeError):
    pass


def _audit(event, args):
    if _AUDIT['on'] and event in ('os.kill', 'os.killpg', 'os.fork', 'os.forkpty', 'os.posix_spawn',
                                  'subprocess.Popen', 'os.system', 'os.exec', 'os.spawn'):
        _AUDIT['hits'].append((event, tuple(a if isinstance(a, (int, str)) else type(a).__name__ for a in args[:2])))
        # the daemon under simulation must never reach the real kernel: block the call
        raise ContainmentBreach('%s%r attempted while a simulated world is current' % (event, args[:2]))


def install():
    """rebind the observation points once per process"""
    global _INSTALLED
    if _INSTALLED:
        return
    import logging
    import circus.watcher
    import circus.arbiter
    import circus.process
    import circus.controller
    import circus.commands.base
    vt = VTime()
    for m in (circus.watcher, circus.arbiter, circus.process, circus.commands.base):
        m.time = vt
    ioloop.IOLoop.time = lambda self: _CUR.clock.now if _CUR is not None else _realtime.time()
    simos = SimOs()
    circus.watcher.os = simos
    circus.arbiter.os = simos
    circus.controller.os = simos
    circus.process.Popen = SimPopen
    circus.process.os = ProcOs()
    import circus.stream.redirector
    circus.stream.redirector.os = RedirOs()
    circus.controller.zmqstream = types.SimpleNamespace(ZMQStream=FakeStream)
    circus.controller.SysHandler = NoSysHandler

    def _no_udp(*a, **kw):
        raise OSError('multicast discovery is not part of the simulation')
    circus.controller.create_udp_socket = _no_udp
    circus.arbiter.zmq = _ZmqShim()
    circus.arbiter._setproctitle = lambda t: None
    for n in ('circus', 'tornado', 'asyncio', 'tornado.application', 'tornado.general'):
        lg = logging.getLogger(n)
        lg.setLevel(logging.CRITICAL + 10)
        lg.propagate = False
        if not lg.handlers:
            lg.addHandler(logging.NullHandler())
    sys.addaudithook(_audit)
    _INSTALLED = True


# ------------------------------------------------------------------ world
class World:
    """One simulated machine with one daemon."""

    def __init__(self):
        global _CUR
        install()
        self.clock = Clock()
        self.stalled = None
        self.chowns = []
        self.streams = []
        self.kernel = SimKernel(self)
        self.context = FakeContext(self)
        self.aloop = VLoop(self)
        self.sel = self.aloop._selector
        self._prev_loop = None
        _CUR = self
        asyncio.set_event_loop(self.aloop)
        self.loop = ioloop.IOLoop.current()
        self.loop_exceptions = []      # exceptions swallowed by the event loop
        self.aloop.set_exception_handler(self._on_loop_exception)
        self.arb = None
        self.next_mid = 0
        self.sent = {}          # mid -> dict(cmd, props, t, iter)
        self.escaped = []       # exceptions that escaped handle_message
        self.check_errors = []
        self.reply_hooks = []   # callables(body) run at the instant a reply body is written
        self.dispatching = None
        self.daemon_exited = None
        _AUDIT['hits'].clear()
        _AUDIT['on'] = True

    def _on_loop_exception(self, loop, context):
        exc = context.get('exception')
        if isinstance(exc, Stalled):
            return
        self.loop_exceptions.append((round(self.now(), 4), str(context.get('message'))[:120],
                                     type(exc).__name__ if exc is not None else None,
                                     str(exc)[:200] if exc is not None else None,
                                     str(context.get('handle'))[:160]))

    # ---- life cycle
    def close(self):
        global _CUR
        _AUDIT['on'] = False
        try:
            self.loop.close(all_fds=False)
        except Exception:
            pass
        try:
            if not self.aloop.is_closed():
                self.aloop.close()
        except Exception:
            pass
        self.kernel.close_pipes()
        asyncio.set_event_loop(None)
        if _CUR is self:
            _CUR = None

    def activate(self):
        """make this world current again (several worlds may be alive, one runs at a time)"""
        global _CUR
        _CUR = self
        asyncio.set_event_loop(self.aloop)
        _AUDIT['on'] = True

    def breach(self):
        """real-kernel process calls seen while this world was current"""
        return list(_AUDIT['hits'])

    def run(self, coro_fn):
        """run a tornado coroutine function to completion on the virtual loop"""
        try:
            return self.loop.run_sync(coro_fn)
        except Stalled:
            return None
        except SystemExit as e:
            # something run by the daemon's loop (a hook) called sys.exit(): a real circusd would be gone now
            self.daemon_exited = ('SystemExit', e.code)
            return None

    def loop_iter(self):
        return self.sel.polls

    def now(self):
        return self.clock.now - EPOCH

    # ---- daemon
    def make_arbiter(self, watchers, **kw):
        from circus.arbiter import Arbiter
        kw.setdefault('check_delay', -1)
        self.arb = Arbiter(watchers, 'ipc:///sim/ctrl', 'ipc:///sim/pub', context=self.context,
                           loop=self.loop, **kw)
        return self.arb

    def load_arbiter(self, config_file):
        from circus.arbiter import Arbiter
        self.arb = Arbiter.load_from_config(config_file, loop=self.loop)
        return self.arb

    @property
    def stream(self):
        return self.arb.ctrl.stream

    # ---- requests / replies
    def send_raw(self, payload, cid=b'cid', mid=None, meta=None):
        """hand one frame to the real Controller.handle_message"""
        n0 = len(self.stream.frames) if getattr(self.arb.ctrl, 'stream', None) else 0
        rec = {'t': self.clock.now, 'iter': self.loop_iter(), 'frames_before': n0,
               'slot': getattr(self.arb, '_exclusive_running_command', None)}
        if meta:
            rec.update(meta)
        if mid is not None:
            self.sent[mid] = rec
        self.dispatching = mid          # observation: which request the daemon is handling synchronously
        try:
            self.arb.ctrl.handle_message([cid, payload])
        except Stalled:
            self.dispatching = None
            raise
        except BaseException as e:           # pyzmq would log it; the client waits forever
            self.escaped.append((mid, type(e).__name__, str(e)[:200]))
            rec['escaped'] = type(e).__name__
        self.dispatching = None
        rec['frames_sync'] = len(self.stream.frames) - n0
        return rec

    def req(self, _command, _cid=b'cid', _cast=False, **props):
        self.next_mid += 1
        mid = 'm%d' % self.next_mid
        msg = {'id': mid, 'command': _command, 'properties': props}
        if _cast:
            msg['msg_type'] = 'cast'         # fire and forget: the daemon sends no reply
        payload = json.dumps(msg).encode()
        self.send_raw(payload, cid=_cid, mid=mid, meta={'cmd': _command, 'props': props})
        return mid

    def replies(self):
        """list of (t, iter, cid, parsed-or-raw) per reply pair written to the ROUTER stream"""
        fr = self.stream.frames
        out = []
        i = 0
        while i + 1 < len(fr):
            t, it, cid, _ = fr[i]
            _, _, body, _ = fr[i + 1]
            try:
                body = json.loads(body)
            except Exception:
                pass
            out.append((t, it, cid, body))
            i += 2
        return out

    def reply(self, mid):
        for t, it, cid, body in self.replies():
            if isinstance(body, dict) and body.get('id') == mid:
                return body
        return None

    def reply_meta(self, mid):
        r = [(t, it, body) for t, it, cid, body in self.replies()
             if isinstance(body, dict) and body.get('id') == mid]
        return r

    @gen.coroutine
    def call(self, _command, **props):
        """send a request and wait (virtual time, bounded) for its reply"""
        mid = self.req(_command, **props)
        r = self.reply(mid)
        waited = 0.0
        while r is None and waited < 600 and self.stalled is None:
            yield gen.sleep(0.05)
            waited += 0.05
            r = self.reply(mid)
        return r

    # ---- events
    def events(self):
        """[(t, topic, payload)] published on the PUB socket"""
        out = []
        s = getattr(self.arb, 'evpub_socket', None)
        if s is None:
            return out
        for t, parts in s.sent:
            try:
                out.append((round(t - EPOCH, 6), parts[0].decode(), json.loads(parts[1])))
            except Exception:
                out.append((round(t - EPOCH, 6), repr(parts[0]), None))
        return out

    # ---- time
    @gen.coroutine
    def advance(self, dt):
        if self.stalled is None:
            yield gen.sleep(dt)

    def pending_timers(self):
        return [h for h in self.aloop._scheduled if not h._cancelled]

    def busy(self):
        if self.arb is not None and getattr(self.arb, '_exclusive_running_command', None) is not None:
            return True
        return bool(self.pending_timers())

    @gen.coroutine
    def settle(self, max_dt=120.0, step=0.05):
        """let virtual time pass until nothing is scheduled on the loop and no exclusive
        operation is in flight (or max_dt has passed).  Returns the time it took, or None
        if the daemon was still busy after max_dt."""
        t0 = self.clock.now
        while self.stalled is None:
            yield gen.sleep(0)          # let ready callbacks run
            if not self.busy():
                return self.clock.now - t0
            if self.clock.now - t0 > max_dt:
                return None
            yield gen.sleep(step)
        return None

    @gen.coroutine
    def check(self):
        """one periodic check, run the way tornado's PeriodicCallback runs it: the callback is
        awaited, exceptions are logged and swallowed, it is never re-entered"""
        if self.stalled is not None:
            return None
        try:
            yield self.arb.manage_watchers()
        except Stalled:
            return None
        except Exception as e:
            self.check_errors.append((round(self.now(), 4), type(e).__name__, str(e)[:120]))
            return False
        return True

    # ---- snapshot through the protocol only
    def snapshot(self, with_stats=True):
        """protocol-level snapshot (synchronous read-only requests)"""
        snap = {}
        names = self._ask('list').get('watchers')
        snap['watchers'] = names
        snap['numwatchers'] = self._ask('numwatchers').get('numwatchers')
        snap['statuses'] = self._ask('status').get('statuses')
        per = {}
        for n in names or []:
            d = {}
            d['pids'] = self._ask('list', name=n).get('pids')
            d['numprocesses'] = self._ask('numprocesses', name=n).get('numprocesses')
            d['status'] = self._ask('status', name=n).get('status')
            o = self._ask('options', name=n).get('options')
            d['options'] = o
            if with_stats:
                info = self._ask('stats', name=n).get('info')
                d['stats'] = sorted(info, key=str) if isinstance(info, dict) else info
            per[n] = d
        snap['per'] = per
        return snap

    def _ask(self, _command, **props):
        mid = self.req(_command, **props)
        r = self.reply(mid)
        return r if isinstance(r, dict) else {}


def canon(obj):
    """JSON canonical form for equality"""
    return json.dumps(obj, sort_keys=True, default=str)
