"""LIVE engine: a real circusd (optionally under strace), real probe workers, the OS as oracle."""
import glob
import json
import os
import re
import shutil
import signal
import subprocess
import sys
import tempfile
import time
import uuid

from vlib.common import PY, VERIF, repo_dir

WORKER = os.path.join(VERIF, 'vlib', 'live_worker.py')
STRACE_CALLS = 'kill,tkill,tgkill,wait4,waitid,bind,listen,unlink,unlinkat,exit_group'


def worker_cmd(spec):
    """command line for a probe worker (spec is embedded as one quoted JSON argument)"""
    return "%s -S %s '%s'" % (PY, WORKER, json.dumps(spec))


# ------------------------------------------------------------------ /proc oracle
def proc_stat(pid):
    """-> (ppid, state, starttime) or None"""
    try:
        with open('/proc/%d/stat' % pid) as f:
            s = f.read()
    except OSError:
        return None
    rp = s.rfind(')')
    rest = s[rp + 2:].split()
    return int(rest[1]), rest[0], int(rest[19])


def all_pids():
    return [int(x) for x in os.listdir('/proc') if x.isdigit()]


def children_of(pid):
    out = []
    for p in all_pids():
        st = proc_stat(p)
        if st and st[0] == pid:
            out.append((p, st[1], st[2]))
    return out


def descendants_of(pid):
    table = {}
    for p in all_pids():
        st = proc_stat(p)
        if st:
            table.setdefault(st[0], []).append(p)
    out, stack = [], [pid]
    while stack:
        x = stack.pop()
        for c in table.get(x, []):
            out.append(c)
            stack.append(c)
    return out


def tagged_pids(marker):
    out = []
    needle = ('VERIF_LIVE=' + marker).encode()
    for p in all_pids():
        try:
            with open('/proc/%d/environ' % p, 'rb') as f:
                if needle in f.read():
                    out.append(p)
        except OSError:
            continue
    return out


def alive(pid, starttime=None):
    st = proc_stat(pid)
    if st is None:
        return False
    if starttime is not None and st[2] != starttime:
        return False
    return True


def fd_targets(pid):
    out = {}
    try:
        for fd in os.listdir('/proc/%d/fd' % pid):
            try:
                out[int(fd)] = os.readlink('/proc/%d/fd/%s' % (pid, fd))
            except OSError:
                pass
    except OSError:
        pass
    return out


# ------------------------------------------------------------------ daemon
class Daemon:
    def __init__(self, ini, strace=False, args=(), prewrite=None, check_delay=None):
        self.id = uuid.uuid4().hex[:12]
        self.dir = tempfile.mkdtemp(prefix='vl', dir='/tmp')
        self.logdir = os.path.join(self.dir, 'w')
        os.mkdir(self.logdir)
        self.endpoint = 'ipc://%s/ctl' % self.dir
        self.pubsub = 'ipc://%s/pub' % self.dir
        self.ini_path = os.path.join(self.dir, 'c.ini')
        self.ini = ini.replace('@DIR@', self.dir).replace('@LOG@', self.logdir)
        with open(self.ini_path, 'w') as f:
            f.write(self.ini)
        self.strace = strace
        self.strace_log = os.path.join(self.dir, 'strace.log')
        self.args = list(args)
        self.proc = None
        self.preexec = None
        self.as_uid = None      # run the daemon as this (unprivileged) user, see live_asuser.py
        self.out_path = os.path.join(self.dir, 'daemon.out')

    def header(self, check_delay=0.5, extra=''):
        return ('[circus]\nendpoint = %s\npubsub_endpoint = %s\ncheck_delay = %s\n%s\n'
                % (self.endpoint, self.pubsub, check_delay, extra))

    def start(self):
        env = dict(os.environ)
        env['VERIF_LIVE'] = self.id
        env['PYTHONPATH'] = repo_dir() + os.pathsep + env.get('PYTHONPATH', '')
        env['PYTHONDONTWRITEBYTECODE'] = '1'
        cmd = [PY, '-m', 'circus.circusd', self.ini_path] + [a.replace('@DIR@', self.dir) for a in self.args]
        if self.as_uid is not None:
            cmd = [PY, os.path.join(VERIF, 'vlib', 'live_asuser.py'), str(self.as_uid)] + cmd[3:]
        if self.strace:
            cmd = ['strace', '-D', '-ttt', '-o', self.strace_log, '-e', 'trace=' + STRACE_CALLS, '-e', 'signal=all'] + cmd
        self.out = open(self.out_path, 'wb')
        self.proc = subprocess.Popen(cmd, cwd=self.dir, env=env, stdout=self.out, stderr=subprocess.STDOUT,
                                     start_new_session=True, preexec_fn=self.preexec)
        self.pid = self.proc.pid
        return self

    def client(self, timeout=5.0):
        from circus.client import CircusClient
        return CircusClient(endpoint=self.endpoint, timeout=timeout)

    def wait_ready(self, timeout=15.0):
        """until the control endpoint answers"""
        t0 = time.time()
        while time.time() - t0 < timeout:
            if self.proc.poll() is not None:
                return False
            if os.path.exists(os.path.join(self.dir, 'ctl')):
                c = self.client(timeout=1.0)
                try:
                    r = c.call({'command': 'numwatchers', 'properties': {}})
                    if r.get('status') == 'ok':
                        return True
                except Exception:
                    pass
                finally:
                    c.stop()
            time.sleep(0.05)
        return False

    def wait_bound(self, timeout=15.0):
        """until the control socket file exists (signal handlers are installed by then)"""
        t0 = time.time()
        while time.time() - t0 < timeout:
            if self.proc.poll() is not None:
                return False
            if os.path.exists(os.path.join(self.dir, 'ctl')):
                return True
            time.sleep(0.01)
        return False

    def call(self, command, timeout=5.0, **props):
        from circus.exc import CallError
        c = self.client(timeout=timeout)
        try:
            return c.call({'command': command, 'properties': props})
        except CallError as e:
            return {'status': 'CallError', 'reason': str(e)}
        finally:
            c.stop()

    def children(self):
        return children_of(self.pid)

    def workers_up(self, n, timeout=10.0):
        """wait until n probe workers have written their .up file"""
        t0 = time.time()
        while time.time() - t0 < timeout:
            ups = glob.glob(os.path.join(self.logdir, '*.up'))
            if len(ups) >= n:
                return True
            time.sleep(0.03)
        return False

    def wait_exit(self, timeout):
        try:
            return self.proc.wait(timeout)
        except subprocess.TimeoutExpired:
            return None

    def strace_lines(self):
        try:
            with open(self.strace_log, errors='replace') as f:
                return f.read().splitlines()
        except OSError:
            return []

    def output(self):
        try:
            self.out.flush()
        except Exception:
            pass
        try:
            with open(self.out_path, errors='replace') as f:
                return f.read()
        except OSError:
            return ''

    def cleanup(self):
        try:
            if self.proc is not None and self.proc.poll() is None:
                try:
                    os.kill(self.pid, signal.SIGKILL)
                except OSError:
                    pass
            for _ in range(3):
                ps = tagged_pids(self.id)
                for p in ps:
                    try:
                        os.kill(p, signal.SIGKILL)
                    except OSError:
                        pass
                if not ps:
                    break
                time.sleep(0.05)
            if self.proc is not None:
                try:
                    self.proc.wait(5)
                except Exception:
                    pass
            try:
                self.out.close()
            except Exception:
                pass
        finally:
            shutil.rmtree(self.dir, ignore_errors=True)


def kill_lines(lines):
    """[(t, target pid, signal name)] from strace output of the daemon"""
    out = []
    for ln in lines:
        m = re.match(r'^(\d+\.\d+) kill\((-?\d+), (\w+)\)\s+= (-?\d+)', ln)
        if m:
            out.append((float(m.group(1)), int(m.group(2)), m.group(3), int(m.group(4))))
    return out
