"""Workload generators shared by the SIM property checks."""
from vlib import simhist

GTS = [0, .1, .25, 1.0, 2.0]


def behaviours(gt, stop_signal=15):
    s = str(stop_signal)
    return [{}, {s: ['die', 0.05]}, {s: ['die', 0.1]}, {s: ['die', max(0, gt - .05)]}, {s: ['die', gt]},
            {s: ['die', gt + .3]}, {s: ['ignore']}, {s: ['ignore']}, {s: ['exit', 0.05, 3]},
            {s: ['exit', 0, 0]}]


def gen_watcher(rnd, name, np_choices=(0, 1, 2, 3, 4), stubborn_bias=0.0, **over):
    gt = rnd.choice(GTS)
    single = rnd.random() < .12
    n = rnd.choice(np_choices)
    if single:
        n = min(n, 1)
    behs = behaviours(gt)
    if stubborn_bias and rnd.random() < stubborn_bias:
        beh = [{'15': ['ignore']}]
    else:
        beh = [rnd.choice(behs) for _ in range(rnd.randint(1, 4))]
    w = {'name': name, 'numprocesses': n, 'graceful_timeout': gt, 'warmup_delay': rnd.choice([0, 0, 0, .3]),
         'singleton': single, 'beh': beh}
    if rnd.random() < .25:
        w['stop_children'] = True
        if rnd.random() < .5:
            w['kids'] = [{'beh': {}}]
    w.update(over)
    return w


def gen_step(rnd, names, kinds):
    """one random step; kinds is a list (with repetition = weight) of step kinds"""
    k = rnd.choice(kinds)
    name = rnd.choice(names)
    wait = rnd.random() < .5
    if k == 'incr':
        return ['req', 'incr', {'name': name, 'nb': rnd.choice([1, 2]), 'waiting': wait}]
    if k == 'decr':
        return ['req', 'decr', {'name': name, 'nb': rnd.choice([1, 2, 5]), 'waiting': wait}]
    if k == 'setnp':
        return ['req', 'set', {'name': name, 'options': {'numprocesses': rnd.choice([-1, 0, 1, 2, 4])},
                               'waiting': wait}]
    if k == 'setopt':
        opt = rnd.choice([{'env': {'A': 'b'}}, {'args': '--x 1'}, {'working_dir': '/tmp'}, {'graceful_timeout': 0.3},
                          {'warmup_delay': 0.1}, {'max_age': 0}, {'shell': False}, {'stop_signal': 15},
                          {'max_age_variance': 5}, {'send_hup': False}, {'env': {'A': 'b'}, 'numprocesses': 2}])
        return ['req', 'set', {'name': name, 'options': opt, 'waiting': wait}]
    if k == 'restart':
        return ['req', 'restart', {'name': name, 'waiting': wait}]
    if k == 'reload':
        return ['req', 'reload', {'name': name, 'waiting': wait}]
    if k == 'reloadseq':
        return ['req', 'reload', {'name': name, 'sequential': True, 'waiting': wait}]
    if k == 'reloadterm':
        return ['req', 'reload', {'name': name, 'graceful': False, 'waiting': wait}]
    if k == 'stop':
        return ['req', 'stop', {'name': name, 'waiting': wait}]
    if k == 'start':
        return ['req', 'start', {'name': name, 'waiting': wait}]
    if k == 'kill':
        p = {'name': name}
        if rnd.random() < .5:
            p['graceful_timeout'] = rnd.choice([0, .2, 3.0])
        if rnd.random() < .3:
            p['signum'] = rnd.choice([15, 'int', 'SIGUSR1', 9])
        if rnd.random() < .4:
            p['waiting'] = True
        return ['req', 'kill', p]
    if k == 'signal':
        return ['req', 'signal', {'name': name, 'signum': rnd.choice([15, 1, 10, 'usr2', 9])}]
    if k == 'extkill':
        return ['extkill', name, rnd.randint(0, 3), 9]
    if k == 'selfexit':
        return ['die', name, rnd.randint(0, 3), simhist.wstatus('exit', rnd.randint(0, 255))]
    if k == 'sigexit':
        return ['die', name, rnd.randint(0, 3), rnd.choice([1, 2, 3, 6, 9, 11, 15, 35, 50, 63, 3 | 0x80, 11 | 0x80])]
    if k == 'check':
        return ['check']
    if k == 'advance':
        return ['adv', rnd.choice([0.05, .2, 1, 3])]
    if k == 'clockat':
        # the wall clock is stepped at a kernel-call boundary of whatever runs next
        return ['inject_clockstep', rnd.randint(1, 25), rnd.choice([-3600.0, 3600.0, -5.0, 5.0, 86400.0, -0.5])]
    if k == 'dieat':
        return ['inject_death', rnd.randint(1, 14), name, rnd.randint(0, 3), rnd.choice([9, 15, 768, 0])]
    if k == 'status':
        return ['req', rnd.choice(['status', 'list', 'numprocesses', 'options', 'stats']), {'name': name}]
    raise ValueError(k)


def gen_steps(rnd, names, kinds, lo=1, hi=8, pause=.5):
    steps = []
    for _ in range(rnd.randint(lo, hi)):
        steps.append(gen_step(rnd, names, kinds))
        if rnd.random() < pause:
            steps.append(['adv', rnd.choice([0, .05, .3])])
    return steps
