"""Reference reading of a circus ini file, written from docs/source/for-ops/configuration.rst:

  * a [watcher:NAME] section gives the watcher its options, typed as documented, defaults otherwise;
  * environment: the [env] section, then every [env:PATTERN] section that matches the watcher name
    (comma separated patterns, shell wildcards), later sections overriding earlier ones; the daemon's
    own environment is underneath only with copy_env;
  * $(circus.env.X) / ((circus.env.X)) in any option expand, case-insensitively, to those values
    ("defined in the env section or in os.environ itself").

The input is the *model* the generator built the file from (ordered sections), not the text.
"""
import fnmatch
import json
import re
import signal

TRUE = ('true', 'yes', 'on', '1')
TYPED = {'numprocesses': 'int', 'warmup_delay': 'int', 'priority': 'int', 'max_retry': 'int',
         'graceful_timeout': 'float',
         'shell': 'b0', 'send_hup': 'b0', 'stop_children': 'b0', 'use_sockets': 'b0', 'singleton': 'b0',
         'copy_env': 'b0', 'on_demand': 'b0', 'close_child_stdout': 'b0', 'close_child_stderr': 'b0',
         'copy_path': 'b0',
         'respawn': 'b1', 'autostart': 'b1', 'close_child_stdin': 'b1', 'stop_signal': 'sig'}
DEFAULTS = {'cmd': '', 'args': '', 'numprocesses': 1, 'warmup_delay': 0, 'executable': None, 'working_dir': None,
            'on_demand': False, 'shell': False, 'uid': None, 'gid': None, 'send_hup': False, 'stop_signal': 15,
            'stop_children': False, 'max_retry': 5, 'graceful_timeout': 30, 'rlimits': {}, 'stderr_stream': {},
            'stdout_stream': {}, 'priority': 0, 'use_sockets': False, 'singleton': False, 'copy_env': False,
            'copy_path': False, 'hooks': {}, 'respawn': True, 'autostart': True}
_REF = re.compile(r'\$\(circus\.env\.([\w.\-]+)\)|\(\(circus\.env\.([\w.\-]+)\)\)', re.I)


def expand(s, env):
    low = {k.lower(): v for k, v in env.items()}

    def rep(m):
        name = (m.group(1) or m.group(2)).lower()
        return low.get(name, m.group(0))
    return _REF.sub(rep, s)


def signum(v):
    if v.lstrip('+-').isdigit():
        return int(v)
    name = v.upper()
    off = 0
    if '+' in name:
        name, o = name.split('+', 1)
        off = int(o)
    if not name.startswith('SIG'):
        name = 'SIG' + name
    return int(getattr(signal, name)) + off


def reference(secs, osenv):
    """secs: [(kind, name, [(key, value)])] in file order, kind in watcher | env | env: | other"""
    local = {}
    for kind, name, items in secs:
        if kind == 'env':
            for k, v in items:
                # "you can use environment variables defined in the env section or in os.environ itself": a value
                # of [env] that refers to a variable of the daemon's environment is expanded too
                local.setdefault(k, expand(v, osenv))
    glob = dict(osenv)
    glob.update(local)
    out = {}
    for kind, name, items in secs:
        if kind != 'watcher':
            continue
        d = dict(items)
        copy_env = expand(d.get('copy_env', 'false'), glob).lower() in TRUE
        env = dict(glob) if copy_env else dict(local)
        for k2, pat, it2 in secs:
            if k2 == 'env:' and any(fnmatch.fnmatch(name, p.strip()) for p in pat.split(',')):
                env.update(dict(it2))
        xenv = dict(glob)
        xenv.update(env)
        w = json.loads(json.dumps(DEFAULTS))
        w['name'] = name
        for k, v in items:
            t = TYPED.get(k)
            v = expand(v, xenv)
            if t == 'int':
                w[k] = int(v)
            elif t == 'float':
                w[k] = float(v)
            elif t in ('b0', 'b1'):
                w[k] = v.lower() in TRUE
            elif t == 'sig':
                w[k] = signum(v)
            elif k.startswith('stdout_stream.') or k.startswith('stderr_stream.'):
                w[k.split('.', 1)[0]][k.split('.', 1)[1]] = v
            elif k.startswith('rlimit_'):
                w['rlimits'][k[7:]] = int(v) if v else -1
            elif k.startswith('hooks.'):
                parts = [x.strip() for x in v.split(',', 1)]
                w['hooks'][k[6:]] = [parts[0], (parts[1].lower() in TRUE) if len(parts) > 1 else False]
            else:
                w[k] = v
        w['env'] = env
        out[name] = w
    return out
