"""Reference model of how a watcher's cmd/args become an argument vector — written from the
property statement and the documentation, not from circus.process:

  * `$(circus.X)` and `((circus.X))` are replaced, case-insensitively, when X is a known
    variable; unknown references and every other `$` stay verbatim (single pass);
  * string cmd / args are then split by POSIX shell quoting rules, list args are kept
    element-wise;
  * with shell=True the single command string must split back to the same words.
"""


class SplitError(ValueError):
    pass


def posix_split(s):
    """POSIX shell word splitting with quoting (no expansion, no comments)"""
    words, cur, have = [], [], False
    i, n = 0, len(s)
    while i < n:
        c = s[i]
        if c in ' \t\r\n':
            if have:
                words.append(''.join(cur))
                cur, have = [], False
            i += 1
        elif c == "'":
            j = s.find("'", i + 1)
            if j < 0:
                raise SplitError('No closing quotation')
            cur.append(s[i + 1:j])
            have = True
            i = j + 1
        elif c == '"':
            i += 1
            have = True
            while True:
                if i >= n:
                    raise SplitError('No closing quotation')
                d = s[i]
                if d == '"':
                    i += 1
                    break
                if d == '\\':
                    if i + 1 >= n:
                        raise SplitError('No closing quotation')
                    e = s[i + 1]
                    if e in '"\\':
                        cur.append(e)
                    else:
                        cur.append('\\' + e)
                    i += 2
                else:
                    cur.append(d)
                    i += 1
        elif c == '\\':
            if i + 1 >= n:
                raise SplitError('No escaped character')
            cur.append(s[i + 1])
            have = True
            i += 2
        else:
            cur.append(c)
            have = True
            i += 1
    if have:
        words.append(''.join(cur))
    return words


def _namechar(c):
    return c.isalnum() or c in '_.-'


def substitute(s, variables):
    """variables: {'wid': '3', 'env.foo': 'v1', ...} with lower-case keys"""
    out = []
    i = 0
    n = len(s)
    while i < n:
        hit = None
        for op, cl in (('$(', ')'), ('((', '))')):
            if s.startswith(op, i):
                j = i + len(op)
                while j < n and _namechar(s[j]):
                    j += 1
                if j > i + len(op) and s.startswith(cl, j):
                    name = s[i + len(op):j]
                    if name.lower().startswith('circus.') and len(name) > 7:
                        hit = (name.lower()[7:], j + len(cl))
                        break
        if hit is not None:
            if hit[0] in variables:
                out.append(str(variables[hit[0]]))
            else:
                out.append(s[i:hit[1]])
            i = hit[1]
        else:
            out.append(s[i])
            i += 1
    return ''.join(out)


def argv_model(cmd, args, variables):
    """-> list of words, or raises SplitError"""
    words = posix_split(substitute(cmd, variables))
    if args is not None:
        if isinstance(args, str):
            words += posix_split(substitute(args, variables))
        else:
            words += [substitute(a, variables) for a in args]
    return words
