"""Shared plumbing: locating /repo, seeds, known findings, verdicts, evidence, sharding."""
import collections
import hashlib
import json
import os
import random
import re
import signal
import subprocess
import sys
import tempfile
import time
import traceback

VERIF = os.path.dirname(os.path.dirname(os.path.abspath(__file__)))
PY = '/venv/bin/python'
NCPU = 16


def repo_dir():
    return os.environ.get('CIRCUS_REPO', '/repo')


def env_seed():
    try:
        return int(os.environ.get('VERIF_SEED', '0'))
    except ValueError:
        return 0


def rng_for(seed, *parts):
    """a reproducible RNG for (seed, case index, ...) independent of PYTHONHASHSEED"""
    h = hashlib.sha256(repr((seed,) + parts).encode()).digest()
    return random.Random(int.from_bytes(h[:8], 'big'))


def sig_hash(obj):
    if not isinstance(obj, str):
        obj = json.dumps(obj, sort_keys=True, default=str)
    return hashlib.sha1(obj.encode('utf8', 'replace')).hexdigest()[:16]


# ------------------------------------------------------------------ known findings
def load_known():
    """-> {(property, key): what} for open findings; fixed entries suppress nothing"""
    path = os.path.join(VERIF, 'KNOWN_FINDINGS.jsonl')
    out = {}
    if not os.path.exists(path):
        return out
    for line in open(path):
        line = line.strip()
        if not line or line.startswith('#'):
            continue
        try:
            d = json.loads(line)
        except ValueError:
            continue
        if 'fixed' in d:
            continue
        out[(d['property'], d['key'])] = d.get('what', '')
    return out


# ------------------------------------------------------------------ case results
class CaseResult:
    """what one executed case (history / input / daemon) contributes"""

    def __init__(self):
        self.viol = []          # [{'key':..., 'msg':..., 'detail':...}]
        self.sigs = []          # canonical signatures of the non-trivial traces observed
        self.obs = collections.Counter()
        self.hist = collections.defaultdict(collections.Counter)   # named histograms
        self.sample = None      # something printable that shows what the case looked like
        self.inconclusive = []  # reasons
        self.ambiguous = collections.Counter()

    def violation(self, key, msg, **detail):
        self.viol.append({'key': key, 'msg': msg, 'detail': detail})

    def nontrivial(self, sig):
        self.sigs.append(sig_hash(sig))

    def to_json(self):
        return {'viol': self.viol, 'sigs': self.sigs, 'obs': dict(self.obs),
                'hist': {k: dict(v) for k, v in self.hist.items()}, 'sample': self.sample,
                'inconclusive': self.inconclusive, 'ambiguous': dict(self.ambiguous)}


class CaseTimeout(KeyboardInterrupt):
    """raised from the SIGALRM handler; derives from KeyboardInterrupt so that the event loop and
    tornado coroutines (which swallow Exception) let it through"""


def _alarm(signum, frame):
    raise CaseTimeout()


# ------------------------------------------------------------------ worker side
def worker_main(mod, tier, seed, shard, nshards, out_path, case_timeout):
    plan = mod.plan(tier, seed)
    agg = {'evaluations': 0, 'sigs': set(), 'obs': collections.Counter(),
           'hist': collections.defaultdict(collections.Counter), 'viol': [], 'samples': [],
           'inconclusive': collections.Counter(), 'ambiguous': collections.Counter(),
           'errors': []}
    if hasattr(mod, 'worker_init'):
        mod.worker_init()
    shard_env = json.loads(os.environ.get('VERIF_SHARD_ENV') or 'null')
    signal.signal(signal.SIGALRM, _alarm)
    deadline = float(os.environ.get('VERIF_DEADLINE', '0')) or None
    nsample = 0
    for idx in range(shard, len(plan), nshards):
        if deadline and time.time() > deadline:
            agg['obs']['cases_skipped_deadline'] += 1
            continue
        spec = plan[idx]
        signal.setitimer(signal.ITIMER_REAL, case_timeout)
        try:
            res = mod.run_case(spec)
        except CaseTimeout:
            signal.setitimer(signal.ITIMER_REAL, 0)
            agg['inconclusive']['watchdog'] += 1
            agg['errors'].append({'spec': spec, 'error': 'wall-clock watchdog (%ss)' % case_timeout})
            continue
        except Exception:
            signal.setitimer(signal.ITIMER_REAL, 0)
            agg['errors'].append({'spec': spec, 'error': traceback.format_exc()[-1500:]})
            continue
        finally:
            signal.setitimer(signal.ITIMER_REAL, 0)
        agg['evaluations'] += 1
        if shard_env:
            agg['obs']['cases_run_in_the_environment:' + ','.join('%s=%s' % kv for kv in sorted(shard_env.items()))] += 1
        agg['sigs'].update(res.sigs)
        agg['obs'].update(res.obs)
        for k, v in res.hist.items():
            agg['hist'][k].update(v)
        for r in res.inconclusive:
            agg['inconclusive'][r] += 1
        agg['ambiguous'].update(res.ambiguous)
        for v in res.viol:
            if len(agg['viol']) < 400:
                v = dict(v)
                v.setdefault('spec', spec)
                if shard_env:
                    v['env'] = shard_env
                agg['viol'].append(v)
            agg['obs']['violations_raw'] += 1
            agg['obs']['violation:' + v['key']] += 1
        if res.sample is not None and (nsample < 3 or (res.sigs and nsample < 6)):
            agg['samples'].append(res.sample)
            nsample += 1
    agg['sigs'] = sorted(agg['sigs'])
    agg['obs'] = dict(agg['obs'])
    agg['hist'] = {k: dict(v) for k, v in agg['hist'].items()}
    agg['inconclusive'] = dict(agg['inconclusive'])
    agg['ambiguous'] = dict(agg['ambiguous'])
    with open(out_path, 'w') as f:
        json.dump(agg, f, default=str)


# ------------------------------------------------------------------ orchestrator
def _slug(s):
    return re.sub(r'[^A-Za-z0-9_.-]+', '_', s)[:80]


def _reap_stale_live(max_age=1800.0):
    """daemons / probe workers of an earlier LIVE run whose shard was killed by a watchdog before it could clean up:
    anything carrying the VERIF_LIVE marker that is older than half an hour"""
    try:
        hz = os.sysconf('SC_CLK_TCK')
        up = float(open('/proc/uptime').read().split()[0])
    except Exception:
        return 0
    n = 0
    for p in os.listdir('/proc'):
        if not p.isdigit():
            continue
        try:
            with open('/proc/%s/environ' % p, 'rb') as f:
                if b'VERIF_LIVE=' not in f.read():
                    continue
            st = open('/proc/%s/stat' % p).read()
            start = int(st[st.rfind(')') + 2:].split()[19]) / hz
            if up - start > max_age and int(p) != os.getpid():
                os.kill(int(p), signal.SIGKILL)
                n += 1
        except (OSError, ValueError, IndexError):
            continue
    return n


def orchestrate(mod, tier, seed, check_script):
    t0 = time.time()
    _reap_stale_live()
    pid_ = mod.ID
    plan = mod.plan(tier, seed)
    n = len(plan)
    nshards = max(1, min(getattr(mod, 'MAX_SHARDS', NCPU), n))
    case_timeout = getattr(mod, 'CASE_TIMEOUT', 60)
    budget = getattr(mod, 'BUDGET', {'quick': 300, 'thorough': 1800})[tier]
    scratch = tempfile.mkdtemp(prefix='verif-%s-' % pid_)
    env = dict(os.environ)
    env['PYTHONHASHSEED'] = '0'
    env['VERIF_DEADLINE'] = str(t0 + budget * 0.8)
    env['PYTHONDONTWRITEBYTECODE'] = '1'
    broken = []
    pre = None
    if hasattr(mod, 'precheck'):
        pre = mod.precheck()          # e.g. kernel-model calibration; returns error string or None
        if pre:
            broken.append('precheck: ' + pre)
    procs = []
    if not broken:
        for s in range(nshards):
            out = os.path.join(scratch, 'shard%d.json' % s)
            cmd = [PY, check_script, pid_, '--tier', tier, '--seed', str(seed),
                   '--worker', '%d/%d' % (s, nshards), '--out', out,
                   '--case-timeout', str(case_timeout)]
            senv = env
            extra = getattr(mod, 'shard_env', lambda i, n: None)(s, nshards)
            if extra:
                # the environment the daemon under test finds itself in (None removes a variable)
                senv = dict(env)
                for k_, v_ in extra.items():
                    if v_ is None:
                        senv.pop(k_, None)
                    else:
                        senv[k_] = v_
                senv['VERIF_SHARD_ENV'] = json.dumps(extra)
            procs.append((s, out, subprocess.Popen(cmd, env=senv, cwd=VERIF,
                                                   stdout=subprocess.PIPE, stderr=subprocess.STDOUT)))
    merged = {'evaluations': 0, 'sigs': set(), 'obs': collections.Counter(),
              'hist': collections.defaultdict(collections.Counter), 'viol': [], 'samples': [],
              'inconclusive': collections.Counter(), 'ambiguous': collections.Counter(),
              'errors': []}
    for s, out, p in procs:
        remaining = max(5, t0 + budget - time.time())
        try:
            o, _ = p.communicate(timeout=remaining)
        except subprocess.TimeoutExpired:
            p.kill()
            o, _ = p.communicate()
            broken.append('shard %d exceeded the wall-clock budget' % s)
            continue
        if p.returncode != 0 or not os.path.exists(out):
            broken.append('shard %d exited %s: %s' % (s, p.returncode, o.decode('utf8', 'replace')[-800:]))
            continue
        d = json.load(open(out))
        merged['evaluations'] += d['evaluations']
        merged['sigs'].update(d['sigs'])
        merged['obs'].update(d['obs'])
        for k, v in d['hist'].items():
            merged['hist'][k].update(v)
        merged['viol'].extend(d['viol'])
        if len(merged['samples']) < 8:
            merged['samples'].extend(d['samples'][:2])
        merged['inconclusive'].update(d['inconclusive'])
        merged['ambiguous'].update(d['ambiguous'])
        merged['errors'].extend(d['errors'])
    try:
        import shutil
        shutil.rmtree(scratch, ignore_errors=True)
    except Exception:
        pass
    return finish(mod, tier, seed, merged, broken, time.time() - t0, n)


def finish(mod, tier, seed, merged, broken, wall, planned):
    pid_ = mod.ID
    known = load_known()
    by_key = collections.OrderedDict()
    for v in merged['viol']:
        by_key.setdefault(v['key'], []).append(v)
    new_keys = [k for k in by_key if (pid_, k) not in known]
    lines = []
    kf_hits = {}
    for k, vs in by_key.items():
        if (pid_, k) in known:
            kf_hits[k] = merged['obs'].get('violation:' + k, len(vs))
            lines.append('KNOWN-FINDING: property=%s %s [%s; %d occurrence(s) in this run]'
                         % (pid_, known[(pid_, k)], k, kf_hits[k]))
    out_root = os.environ.get('VERIF_OUT_DIR') or VERIF       # selftest runs write elsewhere
    replay_dir = os.path.join(out_root, 'replays', pid_)
    for k in new_keys:
        os.makedirs(replay_dir, exist_ok=True)
        vs = by_key[k]
        # the smallest witness first
        vs.sort(key=lambda v: len(json.dumps(v['spec'], default=str)))
        path = os.path.join(replay_dir, '%s.json' % _slug(k))
        with open(path, 'w') as f:
            json.dump({'property': pid_, 'key': k, 'seed': seed, 'tier': tier,
                       'msg': vs[0]['msg'], 'detail': vs[0]['detail'], 'spec': vs[0]['spec'],
                       'env': vs[0].get('env'),
                       'occurrences': merged['obs'].get('violation:' + k, len(vs))},
                      f, indent=1, default=str)
        lines.append('VIOLATION property=%s replay=%s' % (pid_, path))
        lines.append('  key=%s :: %s' % (k, vs[0]['msg'][:300]))
    # inconclusive?  the deciding monitors must have been reached
    inconc = []
    if hasattr(mod, 'starved'):
        inconc.extend(mod.starved(merged, tier))
    if merged['errors']:
        inconc.append('%d case(s) raised in the harness, first: %s'
                      % (len(merged['errors']), str(merged['errors'][0])[:1200]))
    if merged['evaluations'] == 0:
        inconc.append('no case was executed')
    ninc = sum(merged['inconclusive'].values())
    if ninc and ninc * 4 > max(1, merged['evaluations']):
        inconc.append('%d of %d cases were inconclusive: %s' % (ninc, merged['evaluations'],
                                                               dict(list(merged['inconclusive'].items())[:3])))
    nd = len(merged['sigs'])
    cov = {
        'evaluations': merged['evaluations'],
        'distinct_nontrivial': nd,
        'rule': mod.RULE,
        'samples': merged['samples'][:8] or ['(no sample recorded)'],
        'planned_cases': planned,
        'observed': dict(sorted(merged['obs'].items())),
        'histograms': {k: dict(sorted(v.items(), key=lambda kv: str(kv[0])))
                       for k, v in merged['hist'].items()},
        'known_finding_hits': kf_hits,
        'new_violation_keys': new_keys,
        'inconclusive_cases': dict(merged['inconclusive']),
        'ambiguous_not_judged': dict(merged['ambiguous']),
        'verdict': ('violated' if new_keys else ('inconclusive' if (inconc or broken) else 'held-on-observed')),
    }
    if getattr(mod, 'EXHAUSTIVE', None) and mod.EXHAUSTIVE.get(tier):
        cov['exhaustive'] = True
        cov['exhaustive_over'] = mod.EXHAUSTIVE[tier]
    if hasattr(mod, 'extra_coverage'):
        cov.update(mod.extra_coverage(merged, tier))
    if inconc or broken:
        cov['inconclusive_reasons'] = inconc + broken
    ev = {'property_id': pid_, 'tier': tier, 'seed': seed, 'level': mod.LEVEL, 'coverage': cov,
          'assumptions': list(getattr(mod, 'ASSUMPTIONS', [])), 'wall_s': round(wall, 2),
          'violations': len(new_keys)}
    os.makedirs(os.path.join(out_root, 'evidence'), exist_ok=True)
    with open(os.path.join(out_root, 'evidence', '%s.json' % pid_), 'w') as f:
        json.dump(ev, f, indent=1, default=str)
    for ln in lines:
        print(ln)
    print('%s tier=%s seed=%d: %d cases, %d distinct non-trivial, %d known-finding key(s), '
          '%d new violation key(s), %.1fs'
          % (pid_, tier, seed, merged['evaluations'], nd, len(kf_hits), len(new_keys), wall))
    if new_keys:
        return 1
    if inconc or broken:
        for r in inconc + broken:
            print('INCONCLUSIVE property=%s %s' % (pid_, r[:1500]))
        return 2
    return 0


def replay(mod, path):
    d = json.load(open(path))
    spec = d['spec'] if 'spec' in d else d
    if isinstance(d, dict) and d.get('env') and os.environ.get('VERIF_SHARD_ENV') is None:
        # the witness was found with the daemon in a particular environment (read at import time by the code
        # under test): start again in that environment
        e = dict(os.environ)
        for k_, v_ in d['env'].items():
            if v_ is None:
                e.pop(k_, None)
            else:
                e[k_] = v_
        e['VERIF_SHARD_ENV'] = json.dumps(d['env'])
        os.execve(sys.executable, [sys.executable] + sys.argv, e)
    if hasattr(mod, 'worker_init'):
        mod.worker_init()
    res = mod.run_case(spec)
    known = load_known()
    rc = 0
    for v in res.viol:
        if (mod.ID, v['key']) in known:
            print('KNOWN-FINDING: property=%s %s [%s]' % (mod.ID, known[(mod.ID, v['key'])], v['key']))
        else:
            print('VIOLATION property=%s replay=%s' % (mod.ID, path))
            print('  key=%s :: %s' % (v['key'], v['msg']))
            print('  detail=%s' % json.dumps(v['detail'], default=str)[:3000])
            rc = 1
    if not res.viol:
        print('replay: no violation; observed=%s' % dict(res.obs))
    return rc
