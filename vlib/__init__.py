"""Runtime-monitoring machinery for circus-tent/circus (see /verif/DESIGN.md)."""
