"""C10 — state-changing operations are serialized; the exclusive slot is always freed.

Engine SIM.  A first request A (succeeding / raising synchronously / failing asynchronously)
is run alone (reference run), then again with a second request B delivered at every selector
poll 0..K of A's progress.  Oracles: B valid+exclusive arriving while the slot is held must be
refused; a refused B must leave the final protocol snapshot and the kernel ledger identical to
the reference run (differential no-effect); at most one exclusive operation is ever in flight
(nesting counter on the synchronized entry points, observation only); after A has ended in any
of the three ways a probe exclusive request is accepted.
"""
import os

from tornado import gen

from vlib import simhist
from vlib.common import CaseResult, rng_for

ID = 'C10'
LEVEL = 'exploration'
RULE = ('first requests A: start/stop/restart/reload x3/incr/decr/set/add+start/rm/quit/stop-all/periodic check, '
        'made to succeed, to raise synchronously (unknown uid, singleton violation, duplicate name) or to fail '
        'asynchronously (after_start hook raising, exec failure exhausting max_retry, non-numeric nb); second '
        'requests B from the same set plus read-only status; B is delivered at every selector poll of A (dry run '
        'counts them), thorough adds random chains A,B,C and random worker behaviours. non-trivial = B was '
        'dispatched while the exclusive slot was held, or the wedge probe ran after a failing A; distinct = '
        '(A, B, poll, outcome of B, slot holder)')
ASSUMPTIONS = ['the arbiter-wide restart (restart without a name, inside_circusd) is exercised LIVE under C08 only',
               'whether A is in flight is sampled at the instant handle_message is entered for B']
BUDGET = {'quick': 240, 'thorough': 1500}


def boom(**kw):
    raise RuntimeError('scripted after_start failure')


A_OPS = {
    'stop': ('stop', dict(name='a', waiting=True)),
    'start-stopped': ('start', dict(name='s', waiting=True)),
    'restart': ('restart', dict(name='a', waiting=True)),
    'reload': ('reload', dict(name='a', waiting=True)),
    'reload-seq': ('reload', dict(name='a', sequential=True, waiting=True)),
    'reload-term': ('reload', dict(name='a', graceful=False, waiting=True)),
    'incr': ('incr', dict(name='a', nb=2, waiting=True)),
    'decr': ('decr', dict(name='a', nb=1, waiting=True)),
    'set': ('set', dict(name='a', options={'numprocesses': 4}, waiting=True)),
    'set-reload': ('set', dict(name='a', options={'args': 'x'}, waiting=True)),
    'set-bad-uid': ('set', dict(name='a', options={'uid': 'nosuchuser_zz'}, waiting=True)),
    'set-singleton': ('set', dict(name='g', options={'numprocesses': 3}, waiting=True)),
    'add-start': ('add', dict(name='c', cmd='w_c', start=True, waiting=True)),
    'add-dup': ('add', dict(name='A', cmd='w_dup', start=True, waiting=True)),
    'add-start-slow': ('add', dict(name='c', cmd='w_c', start=True, waiting=True,
                                   options={'numprocesses': 3, 'warmup_delay': 0.5})),
    'rm': ('rm', dict(name='b', waiting=True)),
    'incr-bad-nb': ('incr', dict(name='a', nb='x', waiting=True)),
    'start-hookfail': ('start', dict(name='h', waiting=True)),
    'start-execfail': ('start', dict(name='e', waiting=True)),
    'start-hook-sysexit': ('start', dict(name='x', waiting=True)),
    # a worker whose helper process (ignoring every signal) inherited the pipes the daemon captures its output with
    'stop-captured': ('stop', dict(name='k', waiting=True)),
    'restart-captured': ('restart', dict(name='k', waiting=True)),
    'decr-captured': ('decr', dict(name='k', nb=1, waiting=True)),
    'stop-all': ('stop', dict(waiting=True)),
    'start-all': ('start', dict(waiting=True)),
    'restart-glob': ('restart', dict(name='*', waiting=True)),
    'check': ('__check__', {}),
    'check-long': ('__check_long__', {}),
    'quit': ('quit', dict(waiting=True)),
}
B_OPS = {
    'incr': ('incr', dict(name='b', nb=1)),
    'decr': ('decr', dict(name='b', nb=1)),
    'stop': ('stop', dict(name='b')),
    'restart': ('restart', dict(name='b')),
    'reload': ('reload', dict(name='b')),
    'start': ('start', dict(name='s')),
    'add': ('add', dict(name='z', cmd='w_z', start=True)),
    'rm': ('rm', dict(name='g')),
    'set': ('set', dict(name='b', options={'warmup_delay': 9})),
    'stop-all': ('stop', dict()),
    'quit': ('quit', dict()),
    'set-invalid': ('set', dict(name='b', options={'nosuchkey': 1})),
    'incr-unknown': ('incr', dict(name='nosuch', nb=1)),
    'status': ('status', dict(name='a')),
    # the same requests sent as casts (no reply is ever sent for them)
    'incr-cast': ('incr', dict(name='b', nb=1)),
    'stop-cast': ('stop', dict(name='b')),
}
EXCLUSIVE_VALID_B = {'incr', 'decr', 'stop', 'restart', 'reload', 'start', 'add', 'rm', 'set', 'stop-all', 'quit'}


def base_spec(rnd=None):
    d = 0.15 if rnd is None else rnd.choice([0, 0.05, 0.15, 0.4])
    gt = 0.3 if rnd is None else rnd.choice([0.1, 0.3, 1.0])
    wu = 0.2 if rnd is None else rnd.choice([0, 0.2, 0.5])
    return {'kill_latency': 0.0 if rnd is None else rnd.choice([0.0, 0.002]),
            'watchers': [
                {'name': 'a', 'numprocesses': 2, 'graceful_timeout': gt, 'warmup_delay': wu, 'beh': [{'15': ['die', d]}]},
                {'name': 'b', 'numprocesses': 1, 'graceful_timeout': gt, 'beh': [{'15': ['die', d]}]},
                {'name': 's', 'numprocesses': 2, 'autostart': False, 'warmup_delay': wu, 'graceful_timeout': 0.1},
                {'name': 'g', 'numprocesses': 1, 'singleton': True, 'graceful_timeout': 0.1},
                {'name': 'h', 'numprocesses': 1, 'autostart': False, 'graceful_timeout': 0.1,
                 'hooks': {'after_start': ['raise', False]}},
                {'name': 'e', 'numprocesses': 1, 'autostart': False, 'max_retry': 2, 'graceful_timeout': 0.1,
                 'cmd': 'w_e'},
                {'name': 'x', 'numprocesses': 1, 'autostart': False, 'graceful_timeout': 0.1,
                 'hooks': {'before_start': ['exit', False]}},
                {'name': 'p', 'numprocesses': 1, 'graceful_timeout': 0.1},
                {'name': 'k', 'numprocesses': 2, 'graceful_timeout': 0.1, 'capture': 'both',
                 'kids': [{'beh': {'*': ['ignore']}}]},
                {'name': 'L', 'numprocesses': 4, 'graceful_timeout': 0.1, 'warmup_delay': 2.5}],
            'arb': {'warmup_delay': 0.0 if rnd is None else rnd.choice([0, 0.1])}}


def plan(tier, seed):
    out = []
    for a in A_OPS:
        out.append({'A': a, 'variant': None})
    if tier == 'thorough':
        for v in range(12):
            for a in A_OPS:
                out.append({'A': a, 'variant': v, 'seed': seed})
        for i in range(3000):
            out.append({'chain': i, 'seed': seed})
    else:
        for i in range(400):
            out.append({'chain': i, 'seed': seed})
    for i in range(6 if tier == 'quick' else 60):
        out.append({'kind': 'circus-section', 'seed': seed, 'idx': i})
    for i in range(32 if tier == 'quick' else 320):
        out.append({'kind': 'long-gap', 'seed': seed, 'idx': i})
    for i in range(4 if tier == 'quick' else 20):
        out.append({'kind': 'empty-arbiter', 'seed': seed, 'idx': i})
    for i in range(12 if tier == 'quick' else 120):
        out.append({'kind': 'failed-stop', 'seed': seed, 'idx': i})
    for i in range(24 if tier == 'quick' else 240):
        out.append({'kind': 'on-demand', 'seed': seed, 'idx': i})
    for i in range(18 if tier == 'quick' else 180):
        out.append({'kind': 'reloadconfig-overlap', 'seed': seed, 'idx': i})
    return out


_PATCHED = [False]
SYNC_ENTRY = {'Watcher': ['start', 'stop', 'restart', 'reload', 'incr', 'decr', 'set_opt', 'do_action'],
              'Arbiter': ['reload_from_config', 'stop', 'manage_watchers', 'reload', 'add_watcher', 'rm_watcher',
                          'start_watchers', 'stop_watchers', 'restart']}


def worker_init():
    """observation-only nesting counter on the entry points decorated with util.synchronized"""
    if _PATCHED[0]:
        return
    import circus.watcher
    import circus.arbiter
    from vlib import sim
    from tornado import concurrent

    def wrap(cls, name):
        orig = getattr(cls, name, None)
        if orig is None:
            return

        def entry(self, *a, **kw):
            w = sim.cur()
            if w is None or not hasattr(w, 'nest'):
                return orig(self, *a, **kw)
            # work started under an earlier exclusive operation that is still running although that operation has
            # ended and given the slot back: this operation would run beside it
            left = [x for x in w.nest['work'] if x[1] not in w.nest['tokens']]
            w.nest['seq'] = w.nest.get('seq', 0) + 1
            token = w.nest['seq']
            w.nest['tokens'].append(token)      # owner of the work units started by the synchronous part
            try:
                resp = orig(self, *a, **kw)        # raises ConflictError when refused: not counted
            except BaseException:
                w.nest['tokens'].remove(token)
                raise
            if left and w.nest['n'] == 0:
                w.nest['orphans'].append((name, sorted(set(x[0] for x in left))))
            w.nest['n'] += 1
            w.nest['max'] = max(w.nest['max'], w.nest['n'])
            w.nest['entered'] += 1
            if w.nest['n'] > 1:
                w.nest['overlaps'].append((name, list(w.nest['open'])))
            w.nest['open'].append(name)

            def fin(_f=None):
                w.nest['n'] -= 1
                if token in w.nest['tokens']:
                    w.nest['tokens'].remove(token)
                if name in w.nest['open']:
                    w.nest['open'].remove(name)
            if isinstance(resp, concurrent.Future) and not resp.done():
                concurrent.future_add_done_callback(resp, fin)
            else:
                fin()
            return resp
        entry.__name__ = name
        setattr(cls, name, entry)
    def wrap_work(cls, name):
        orig = getattr(cls, name, None)
        if orig is None:
            return

        def work(self, *a, **kw):
            w = sim.cur()
            if w is None or not hasattr(w, 'nest'):
                return orig(self, *a, **kw)
            # (work started while no exclusive operation is in flight has no owner: the next accepted operation
            # would run beside it)
            ent = (name, w.nest['tokens'][-1] if w.nest['tokens'] else None)
            w.nest['work'].append(ent)
            try:
                resp = orig(self, *a, **kw)
            except BaseException:
                w.nest['work'].remove(ent)
                raise

            def fin(_f=None):
                if ent in w.nest['work']:
                    w.nest['work'].remove(ent)
            if isinstance(resp, concurrent.Future) and not resp.done():
                concurrent.future_add_done_callback(resp, fin)
            else:
                fin()
            return resp
        work.__name__ = name
        setattr(cls, name, work)
    # coroutines that only ever run as part of an exclusive operation
    for n in ('manage_processes', 'spawn_processes', '_start', '_stop', '_restart', '_reload'):
        wrap_work(circus.watcher.Watcher, n)
    for n in SYNC_ENTRY['Watcher']:
        wrap(circus.watcher.Watcher, n)
    for n in SYNC_ENTRY['Arbiter']:
        wrap(circus.arbiter.Arbiter, n)
    _PATCHED[0] = True


def run_case(spec):
    worker_init()
    res = CaseResult()
    if 'chain' in spec:
        run_chain(spec, res)
        return res
    if spec.get('kind') == 'circus-section':
        circus_section(spec, res)
        return res
    if spec.get('kind') == 'long-gap':
        long_gap(spec, res)
        return res
    if spec.get('kind') == 'empty-arbiter':
        empty_arbiter(spec, res)
        return res
    if spec.get('kind') == 'failed-stop':
        failed_stop(spec, res)
        return res
    if spec.get('kind') == 'on-demand':
        on_demand(spec, res)
        return res
    if spec.get('kind') == 'reloadconfig-overlap':
        reloadconfig_overlap(spec, res)
        return res
    if 'B' in spec:                     # concrete (replay)
        h = spec['h']
        ref = run_pair(h, spec['A'], None, None, res)
        run_pair(h, spec['A'], spec['B'], spec['at'], res, ref)
        return res
    rnd = None if spec.get('variant') is None else rng_for(spec['seed'], 'C10', spec['A'], spec['variant'])
    h = base_spec(rnd)
    aname = spec['A']
    ref = run_pair(h, aname, None, None, res)
    if ref is None:
        return res
    res.hist['polls_of_A'][ref['polls']] += 1
    bnames = list(B_OPS) if rnd is None else rnd.sample(list(B_OPS), 5)
    for bname in bnames:
        np_ = ref['polls']
        # every selector poll of A; for very long operations 71 polls spread over the whole of it
        for at in (range(0, np_ + 1) if np_ <= 70 else sorted(set(int(i * np_ / 70.0) for i in range(71)))):
            run_pair(h, aname, bname, at, res, ref)
            res.obs['injections'] += 1
    if res.sample is None:
        res.sample = {'A': aname, 'A_request': A_OPS[aname], 'polls': ref['polls'], 'B_tried': bnames,
                      'A_reply': ref['replyA']}
    return res


def snapshot(w):
    k = w.kernel
    snap = w.snapshot(with_stats=False)
    for n, d in (snap.get('per') or {}).items():
        o = d.get('options') or {}
        d['options'] = {kk: vv for kk, vv in o.items() if kk not in ('hooks',)}
    led = [(e[1], e[2]) + tuple(e[3:4]) for e in k.log if e[1] in ('spawn', 'signal')]
    return snap, led


def run_pair(h, aname, bname, at, res, ref=None):
    w = simhist.new_world(h)
    w.nest = {'n': 0, 'max': 0, 'entered': 0, 'overlaps': [], 'open': [], 'tokens': [], 'work': [], 'orphans': []}
    w.kernel.spawn_fail = set()
    out = {}
    nv = len(res.viol)
    try:
        w.run(lambda: _pair(w, h, aname, bname, at, res, ref, out))
        for v in res.viol[nv:]:
            v['spec'] = {'h': h, 'A': aname, 'B': bname, 'at': at}
        if w.breach():
            res.inconclusive.append('containment breach')
    finally:
        w.close()
    return out.get('ref')


@gen.coroutine
def send_A(w, aname):
    cmd, props = A_OPS[aname]
    if cmd == '__check_long__':
        # a periodic check that respawns four workers 2.5 s apart
        for p in w.kernel.live(simhist.tag_of('L')):
            w.kernel.kill(p, 9, sender='ext')
        w.loop.add_callback(w.check)
        return None
    if cmd == '__check__':
        # make the periodic check long: kill a worker of the paced watcher first
        live = w.kernel.live('w_a')
        for p in live:
            w.kernel.kill(p, 9, sender='ext')
        w.loop.add_callback(w.check)
        return None
    if aname == 'start-execfail':
        w.kernel.spawn_fail = set(range(w.kernel.spawn_attempts + 1, w.kernel.spawn_attempts + 3))
    return w.req(cmd, **dict(props))


@gen.coroutine
def _pair(w, h, aname, bname, at, res, ref, out):
    k = w.kernel
    yield simhist.boot(w, h)
    yield w.settle(30)
    p0 = w.sel.polls
    info = {}
    if bname is not None:
        def deliver():
            if not w.arb.ctrl.started or w.stalled is not None:
                info['skipped'] = True
                return
            info['slot'] = w.arb._exclusive_running_command
            cmd, props = B_OPS[bname]
            info['mid'] = w.req(cmd, _cast=bname.endswith('-cast'), **dict(props))
        if at == 0:
            pass
        else:
            w.sel.hooks[p0 + at] = (0, lambda: w.aloop.call_soon(deliver))
    midA = yield send_A(w, aname)
    if bname is not None and at == 0:
        deliver()                      # same loop iteration as A, right behind it
    yield w.settle(120)
    polls = w.sel.polls - p0
    w.sel.hooks.clear()            # a B that was not delivered during A's progress is not delivered later
    yield w.settle(120)            # B may have been accepted at the very last poll: let it finish too
    if w.stalled is not None:
        res.obs['stalled(C05 owns)'] += 1
        return
    replyA = w.reply(midA) if midA else None
    quitting = aname == 'quit' or (bname == 'quit' and info.get('mid') and
                                   (w.reply(info['mid']) or {}).get('status') == 'ok')
    # ---- wedge probe: the next exclusive request must be accepted
    probe_status = None
    if not quitting and w.arb.ctrl.started:
        pr = yield w.call('incr', name='p', nb=0, waiting=True)
        probe_status = (pr or {}).get('status')
        res.obs['wedge_probes'] += 1
        if pr is None or (pr.get('status') == 'error' and 'already running' in str(pr.get('reason'))) \
                or 'restarting' in str((pr or {}).get('reason')):
            how = 'sync-raise' if (replyA or {}).get('status') == 'error' else (
                'async-fail' if replyA is None else 'ok')
            res.violation('C10/wedged-after:%s[%s]' % (aname, how),
                          'after %s ended (%s) the probe exclusive request was answered %s; slot=%s'
                          % (aname, how, str(pr)[:160], w.arb._exclusive_running_command))
        yield w.settle(30)
    snap = snapshot(w) if not quitting else (None, [(e[1], e[2]) for e in k.log if e[1] in ('spawn', 'signal')])
    if w.nest['overlaps']:
        res.violation('C10/two-exclusive-in-flight', 'exclusive entry %s entered while %s in flight'
                      % w.nest['overlaps'][0])
    if w.nest['orphans']:
        res.violation('C10/exclusive-work-outlives-its-slot', 'exclusive entry %s was accepted while %s, started by an '
                      'operation that has already ended and freed the slot, was still running' % w.nest['orphans'][0])
    res.obs['exclusive_entries'] += w.nest['entered']
    if bname is None:
        out['ref'] = {'polls': polls, 'snap': snap, 'replyA': replyA, 'probe': probe_status}
        res.obs['reference_runs'] += 1
        if replyA is not None and replyA.get('status') == 'error':
            res.obs['A_failed_sync'] += 1
        elif replyA is None and midA:
            res.obs['A_unanswered(async failure; C06 owns)'] += 1
        return
    if info.get('skipped') or 'mid' not in info:
        res.obs['B_not_delivered'] += 1
        return
    rb = w.reply(info['mid'])
    slot = info['slot']
    key = (aname, bname, at, (rb or {}).get('status'), slot)
    if bname.endswith('-cast'):
        # no reply to look at: arriving while the slot is held it must have no effect at all
        if rb is not None:
            res.violation('C10/cast-answered', '%s (a cast) got a reply %s' % (bname, str(rb)[:100]))
        if slot is not None:
            res.obs['casts_dispatched_while_slot_held'] += 1
            res.nontrivial(repr(key))
            if ref is not None and not quitting and ref['snap'] is not None and snap != ref['snap']:
                res.violation('C10/refused-but-effect:%s' % bname,
                              '%s arrived while %s was in flight (poll %d), yet the final state differs from the run '
                              'without it' % (bname, slot, at), diff=_diff(ref['snap'], snap))
            res.obs['differential_comparisons'] += 1
        return
    if rb is None:
        rec = w.sent[info['mid']]
        if rec.get('escaped') or not quitting:
            res.obs['B_unanswered(C06 owns)'] += 1
        return
    if bname == 'status':
        if slot:
            res.obs['readonly_inside'] += 1
            res.nontrivial(repr(key))
        if rb.get('status') not in ('active', 'stopped', 'starting', 'stopping'):
            res.violation('C10/readonly-refused', 'status answered %s while %s in flight' % (str(rb)[:120], slot))
        return
    if slot is not None:
        res.obs['B_dispatched_while_slot_held'] += 1
        res.nontrivial(repr(key))
        if bname in EXCLUSIVE_VALID_B and rb.get('status') == 'ok':
            res.violation('C10/accepted-inside:%s' % bname, '%s answered ok although %s (request %s) was in flight '
                          '(poll %d)' % (bname, slot, aname, at))
    else:
        res.obs['B_dispatched_with_slot_free'] += 1
    if rb.get('status') == 'error':
        res.obs['B_refused'] += 1
        if 'already running' in str(rb.get('reason')) or 'restarting' in str(rb.get('reason')):
            res.obs['B_refused_conflict'] += 1
            if slot is None:
                res.violation('C10/conflict-with-free-slot', '%s refused as conflicting (%s) although no operation was '
                              'in flight' % (bname, rb.get('reason')))
        if ref is not None and not quitting and ref['snap'] is not None and snap != ref['snap']:
            res.violation('C10/refused-but-effect:%s' % bname,
                          '%s was refused (%s) while %s in flight, yet the final state differs from the run without it'
                          % (bname, str(rb.get('reason'))[:80], slot or aname), diff=_diff(ref['snap'], snap))
        res.obs['differential_comparisons'] += 1


def _diff(a, b):
    import json
    ja, jb = json.dumps(a, sort_keys=True, default=str), json.dumps(b, sort_keys=True, default=str)
    i = 0
    while i < min(len(ja), len(jb)) and ja[i] == jb[i]:
        i += 1
    return {'ref': ja[max(0, i - 150):i + 150], 'run': jb[max(0, i - 150):i + 150]}


def empty_arbiter(spec, res):
    """the boundary of "several watchers": the last watcher removed (or none configured); the periodic check must
    still end and give the slot back"""
    rnd = rng_for(spec['seed'], 'C10-empty', spec['idx'])
    n0 = spec['idx'] % 3            # 0, 1 or 2 watchers to begin with
    h = {'kill_latency': 0.0, 'watchers': [{'name': 'w%d' % i, 'numprocesses': 1, 'graceful_timeout': 0.1}
                                           for i in range(n0)]}
    w = simhist.new_world(h)
    w.nest = {'n': 0, 'max': 0, 'entered': 0, 'overlaps': [], 'open': [], 'tokens': [], 'work': [], 'orphans': []}
    nv = len(res.viol)

    @gen.coroutine
    def go():
        yield simhist.boot(w, h)
        yield w.settle(30)
        for i in range(n0):
            yield w.call('rm', name='w%d' % i, waiting=True)
            yield w.settle(30)
        for k_ in range(rnd.randint(1, 3)):
            w.loop.add_callback(w.check)
            yield w.advance(1.0)
        yield w.settle(30)
        pr = yield w.call('add', name='late', cmd='w_late', start=True, waiting=True)
        res.obs['wedge_probes'] += 1
        res.obs['empty_arbiter_cases'] += 1
        if pr is None or pr.get('status') != 'ok':
            res.violation('C10/wedged-after:check[no-watcher-left]', 'with no watcher left (%d removed) the periodic check '
                          'ran; afterwards add was answered %s; slot=%s' % (n0, str(pr)[:160], w.arb._exclusive_running_command))
        res.nontrivial(repr(('empty-arbiter', n0)))
    try:
        w.run(go)
        for v in res.viol[nv:]:
            v['spec'] = dict(spec)
    finally:
        w.close()
    res.sample = {'case': 'periodic check of an arbiter without watchers', 'watchers_removed_first': n0}


def on_demand(spec, res):
    """the periodic check is one of the serialized operations, also when what it does is start an on-demand watcher
    because somebody connected to its socket: a request arriving while that start is under way is refused, or the
    start is over"""
    import socket
    from circus.sockets import CircusSocket
    rnd = rng_for(spec['seed'], 'C10-on-demand', spec['idx'])
    np_ = rnd.choice([2, 3])
    wu = rnd.choice([0.3, 0.5, 1.0])
    h = {'kill_latency': 0.0,
         'watchers': [{'name': 'od', 'numprocesses': np_, 'warmup_delay': wu, 'graceful_timeout': 0.2, 'on_demand': True,
                       'use_sockets': True},
                      {'name': 'p', 'numprocesses': 1, 'graceful_timeout': 0.1}]}
    bname, (bcmd, bprops) = [
        ('incr-od', ('incr', {'name': 'od', 'nb': 2, 'waiting': True})),
        ('stop-od', ('stop', {'name': 'od', 'waiting': True})),
        ('restart-od', ('restart', {'name': 'od', 'waiting': True})),
        ('set-od', ('set', {'name': 'od', 'options': {'numprocesses': 1}, 'waiting': True})),
        ('incr-p', ('incr', {'name': 'p', 'nb': 1, 'waiting': True})),
        ('reload-od', ('reload', {'name': 'od', 'waiting': True})),
        ('decr-od', ('decr', {'name': 'od', 'nb': 1, 'waiting': True})),
        ('rm-od', ('rm', {'name': 'od', 'waiting': True}))][spec['idx'] % 8]
    delay = rnd.choice([0.0, 0.1, wu * 0.5, wu * 1.2, wu * (np_ - 1) - 0.05])
    w = simhist.new_world(h)
    w.nest = {'n': 0, 'max': 0, 'entered': 0, 'overlaps': [], 'open': [], 'tokens': [], 'work': [], 'orphans': []}
    nv = len(res.viol)
    socks = []

    @gen.coroutine
    def go():
        ws = [simhist.make_watcher(w, c) for c in h['watchers']]
        lsock = CircusSocket('od', host='127.0.0.1', port=0)
        socks.append(lsock)
        arb = w.make_arbiter(ws, sockets=[lsock])
        yield arb.start()
        yield w.settle(30)
        yield w.check()
        yield w.settle(5)
        if w.kernel.live('w_od'):
            res.inconclusive.append('on-demand watcher started without a connection (C02 owns)')
            return
        c = socket.create_connection(('127.0.0.1', lsock.getsockname()[1]))
        socks.append(c)
        chk = w.check()            # not waited for: the request below arrives while it is (or should be) in progress
        yield gen.sleep(0)
        if delay:
            yield w.advance(delay)
        st0 = simhist.reported_status(w, 'od')
        live0 = len(w.kernel.live('w_od'))
        slot = w.arb._exclusive_running_command
        rb = yield w.call(bcmd, **dict(bprops))
        yield chk
        yield w.settle(60)
        res.obs['requests_during_an_on_demand_start'] += 1
        res.obs['on_demand_start:%s' % ('inside-the-slot' if slot else 'slot-free-while-%s' % st0)] += 1
        accepted = (rb or {}).get('status') == 'ok'
        if accepted and st0 == 'starting' and live0 < np_ and slot is None:
            end = (simhist.reported_status(w, 'od'), simhist.reported_numprocesses(w, 'od'), len(w.kernel.live('w_od')))
            res.violation('C10/second-operation-accepted-during-an-on-demand-start:' + bname,
                          'the periodic check started the on-demand watcher od (%d of %d workers up, status starting) and '
                          'gave the slot back; %s %s sent %.2fs later was accepted and ran beside the start; od ends as '
                          'status=%s numprocesses=%s live=%d; monitor: %s'
                          % (live0, np_, bcmd, bprops, delay, end[0], end[1], end[2], w.nest['orphans'][:1]))
        res.nontrivial(repr(('on-demand', bname, st0, bool(slot), accepted)))
        pr = yield w.call('incr', name='p', nb=0, waiting=True)
        res.obs['wedge_probes'] += 1
        if pr is None or (pr.get('status') == 'error' and 'already running' in str(pr.get('reason'))):
            res.violation('C10/wedged-after-an-on-demand-start', 'probe answered %s' % str(pr)[:120])
    try:
        w.run(go)
        for v in res.viol[nv:]:
            v['spec'] = dict(spec)
    finally:
        for s_ in socks:
            try:
                s_.close()
            except Exception:
                pass
        w.close()
    res.sample = res.sample or {'case': 'connection to an on-demand watcher, periodic check, then %s %.2fs later' % (bname, delay)}


def failed_stop(spec, res):
    """an operation that ends with an error half-way (the watcher's output stream cannot be closed: disk full) leaves the
    watcher in a transient status; whatever is asked next for it must end, and free the slot"""
    rnd = rng_for(spec['seed'], 'C10-failed-stop', spec['idx'])
    second = ['stop', 'restart', 'rm', 'stop-all', 'reload', 'start', 'incr', 'set'][spec['idx'] % 8]
    h = {'kill_latency': 0.0,
         'watchers': [{'name': 'f', 'numprocesses': 2, 'graceful_timeout': rnd.choice([0.1, 0.5]),
                       'close_fails': rnd.choice([1, 1, 2]), 'beh': [{'15': ['die', rnd.choice([0, 0.05])]}]},
                      {'name': 'p', 'numprocesses': 1, 'graceful_timeout': 0.1}]}
    w = simhist.new_world(h)
    w.nest = {'n': 0, 'max': 0, 'entered': 0, 'overlaps': [], 'open': [], 'tokens': [], 'work': [], 'orphans': []}
    nv = len(res.viol)

    @gen.coroutine
    def go():
        yield simhist.boot(w, h)
        yield w.settle(30)
        # a stop addressed to one watcher closes its output streams at the end
        r1 = yield w.call('stop', name='f', waiting=True)
        yield w.settle(60)
        st1 = simhist.reported_status(w, 'f')
        res.obs['failed_stops:%s:%s' % ((r1 or {}).get('status'), st1)] += 1
        props = {'name': 'f', 'waiting': True}
        cmd = second
        if second == 'stop-all':
            cmd, props = 'stop', {'waiting': True}
        elif second == 'incr':
            props['nb'] = 1
        elif second == 'set':
            props['options'] = {'numprocesses': 3}
        r2 = yield w.call(cmd, **props)
        took = yield w.settle(120)
        if w.stalled is not None:
            res.obs['stalled(C05 owns)'] += 1
            return
        pr = yield w.call('incr', name='p', nb=0, waiting=True)
        res.obs['wedge_probes'] += 1
        slot = w.arb._exclusive_running_command
        if took is None or pr is None or (pr.get('status') == 'error' and 'already running' in str(pr.get('reason'))):
            res.violation('C10/wedged-after-a-failed-stop:' + second,
                          'stop f failed half-way (%s; watcher f reports %s); then %s f was sent: 120 s later the slot '
                          'is held by %s and the probe is answered %s'
                          % (str((r1 or {}).get('reason'))[:60], st1, second, slot, str(pr)[:120]))
        res.nontrivial(repr(('failed-stop', st1, second, (r2 or {}).get('status'))))
    try:
        w.run(go)
        for v in res.viol[nv:]:
            v['spec'] = dict(spec)
    finally:
        w.close()
    res.sample = res.sample or {'case': 'stop that fails while closing the output stream, then ' + second}


def long_gap(spec, res):
    """the same operation twice with a long quiet period in between (minutes of virtual time), the second one slow:
    nothing left over from the first one may give the slot away while the second one runs"""
    rnd = rng_for(spec['seed'], 'C10-gap', spec['idx'])
    T = [30, 60, 120, 300, 600, 900, 1800, 3600][spec['idx'] % 8]
    gap = T - rnd.uniform(0.5, 7.5)
    op = rnd.choice(['stop', 'restart', 'reload', 'stop'])
    h = {'kill_latency': 0.0,
         'watchers': [{'name': 'a', 'numprocesses': 2, 'graceful_timeout': 8.0, 'beh': [{'15': ['ignore']}]},
                      {'name': 'b', 'numprocesses': 1, 'graceful_timeout': 0.1},
                      {'name': 'p', 'numprocesses': 1, 'graceful_timeout': 0.1}]}
    w = simhist.new_world(h)
    w.nest = {'n': 0, 'max': 0, 'entered': 0, 'overlaps': [], 'open': [], 'tokens': [], 'work': [], 'orphans': []}
    nv = len(res.viol)

    @gen.coroutine
    def go():
        yield simhist.boot(w, h)
        yield w.settle(30)
        t0 = w.clock.now
        yield w.call(op, name='a', waiting=True)
        if op == 'stop':
            yield w.call('start', name='a', waiting=True)
        # (no settle() here: it would run the clock on to whatever timer is pending)
        yield w.advance(max(0.0, gap - (w.clock.now - t0)))
        w.req(op, name='a')                      # the slow one: 8 s of grace for two stubborn workers
        accepted = []
        for i in range(24):
            yield w.advance(0.4)
            # "in flight" is taken from the operation itself (its future has not completed), not from the slot
            running = list(w.nest['open'])
            held = w.arb._exclusive_running_command
            if not running:
                break
            mid = w.req('incr', name='b', nb=1)
            rb = w.reply(mid)
            res.obs['requests_during_the_second_operation'] += 1
            if isinstance(rb, dict) and rb.get('status') == 'ok':
                accepted.append((round(w.clock.now - t0, 2), running, held))
        yield w.settle(120)
        if w.stalled is not None:
            res.obs['stalled(C05 owns)'] += 1
            return
        if accepted:
            res.violation('C10/accepted-inside:incr[long-gap]', 'second %s of a, %.1f s after the first one: incr b was '
                          'answered ok at %s (seconds since the first %s, operations in flight, slot holder)' % (op, gap, accepted[:3], op))
        if w.nest['overlaps']:
            res.violation('C10/two-exclusive-in-flight', 'exclusive entry %s entered while %s in flight (second %s, '
                          '%.1f s after the first)' % (w.nest['overlaps'][0] + (op, gap)))
        res.obs['long_gap_cases'] += 1
        res.nontrivial(repr(('long-gap', op, T)))
    try:
        w.run(go)
        for v in res.viol[nv:]:
            v['spec'] = dict(spec)
    finally:
        w.close()
    res.sample = {'case': 'same operation twice, long gap', 'op': op, 'gap_s': round(gap, 1)}


def reloadconfig_overlap(spec, res):
    """reloadconfig is one operation until everything it does is done -- also the graceful stop of a watcher that
    disappeared from (or changed in) the file, whose workers sit out the grace period: a request arriving meanwhile is
    refused"""
    import os
    import shutil
    import tempfile
    rnd = rng_for(spec['seed'], 'C10-reloadconfig-overlap', spec['idx'])
    d = tempfile.mkdtemp(prefix='verif-c10-')
    path = os.path.join(d, 'circus.ini')
    edit = ['remove', 'option', 'fewer'][spec['idx'] % 3]
    bname, (bcmd, bprops) = [('incr-p', ('incr', {'name': 'p', 'nb': 1, 'waiting': True})),
                             ('stop-p', ('stop', {'name': 'p', 'waiting': True})),
                             ('restart-p', ('restart', {'name': 'p', 'waiting': True}))][(spec['idx'] // 3) % 3]
    delay = [0.1, 0.4, 0.8][(spec['idx'] // 9) % 3]

    def render(with_a, a_opts):
        t = '[circus]\ncheck_delay = -1\nendpoint = ipc:///sim/ctrl\npubsub_endpoint = ipc:///sim/pub\n\n'
        if with_a:
            t += '[watcher:a]\ncmd = w_a\ngraceful_timeout = 1.5\n%s\n' % a_opts
        return t + '[watcher:p]\ncmd = w_p\nnumprocesses = 1\ngraceful_timeout = 0.2\n\n'
    open(path, 'w').write(render(True, 'numprocesses = 2\n'))
    w = simhist.new_world({})
    w.confs['w_a'] = {'beh': [{'15': ['ignore']}]}           # sits out the whole grace period
    w.nest = {'n': 0, 'max': 0, 'entered': 0, 'overlaps': [], 'open': [], 'tokens': [], 'work': [], 'orphans': []}
    nv = len(res.viol)

    @gen.coroutine
    def go():
        arb = w.load_arbiter(path)
        yield arb.start()
        yield w.settle(60)
        old = set(w.kernel.live('w_a'))
        open(path, 'w').write(render(edit != 'remove', {'remove': '', 'option': 'numprocesses = 2\nmax_retry = 9\n',
                                                        'fewer': 'numprocesses = 1\n'}[edit]))
        m1 = w.req('reloadconfig', waiting=rnd.random() < .5)
        yield w.advance(delay)
        slot = w.arb._exclusive_running_command
        dying = sorted(old & set(w.kernel.live('w_a')))
        rb = yield w.call(bcmd, **dict(bprops))
        yield w.settle(120)
        if w.stalled is not None:
            res.obs['stalled(C05 owns)'] += 1
            return
        res.obs['requests_during_a_reloadconfig'] += 1
        res.obs['reloadconfig:%s' % ('slot-held' if slot else 'slot-free')] += 1
        accepted = (rb or {}).get('status') == 'ok'
        if accepted and slot is None and dying and edit != 'fewer' or w.nest['orphans']:
            res.violation('C10/second-operation-accepted-while-reloadconfig-still-stops-a-watcher:' + edit,
                          'reloadconfig (edit: %s of watcher a) had given the slot back %.1fs after it was sent although the '
                          'workers %s of the old a were still inside their grace period; %s was accepted beside it; '
                          'monitor: %s' % (edit, delay, dying, bname, w.nest['orphans'][:1]))
        res.nontrivial(repr(('reloadconfig-overlap', edit, bname, delay, bool(slot), accepted)))
        pr = yield w.call('incr', name='p', nb=0, waiting=True)
        res.obs['wedge_probes'] += 1
        if pr is None or (pr.get('status') == 'error' and 'already running' in str(pr.get('reason'))):
            res.violation('C10/wedged-after:reloadconfig[%s]' % edit, 'probe answered %s' % str(pr)[:120])
    try:
        w.run(go)
        for v in res.viol[nv:]:
            v['spec'] = dict(spec)
    finally:
        w.close()
        shutil.rmtree(d, ignore_errors=True)
    res.sample = res.sample or {'case': 'reloadconfig (%s) then %s %.1fs later' % (edit, bname, delay)}


def circus_section(spec, res):
    """the second lock: a reloadconfig that finds the [circus] section edited restarts every watcher under the
    arbiter's `_restarting` flag; once it is over, state-changing requests and the periodic check must run again"""
    import os
    import shutil
    import tempfile
    rnd = rng_for(spec['seed'], 'C10-circus', spec['idx'])
    d = tempfile.mkdtemp(prefix='verif-c10-')
    path = os.path.join(d, 'circus.ini')

    def render(extra):
        return ('[circus]\ncheck_delay = -1\nendpoint = ipc:///sim/ctrl\npubsub_endpoint = ipc:///sim/pub\n%s\n'
                '[watcher:a]\ncmd = w_a\nnumprocesses = 2\ngraceful_timeout = 0.2\n\n'
                '[watcher:p]\ncmd = w_p\nnumprocesses = 1\ngraceful_timeout = 0.2\n\n' % extra)
    edits = rnd.sample(['warmup_delay = 1', 'debug = False', 'statsd = False', 'warmup_delay = 0', 'umask = 022'],
                       rnd.randint(1, 3))
    open(path, 'w').write(render(''))
    w = simhist.new_world({})
    w.nest = {'n': 0, 'max': 0, 'entered': 0, 'overlaps': [], 'open': [], 'tokens': [], 'work': [], 'orphans': []}
    nv = len(res.viol)

    @gen.coroutine
    def go():
        arb = w.load_arbiter(path)
        yield arb.start()
        yield w.settle(60)
        for e in edits:
            open(path, 'w').write(render(e))
            rep = yield w.call('reloadconfig', waiting=True)
            yield w.settle(120)
            if w.stalled is not None:
                res.obs['stalled(C05 owns)'] += 1
                return
            res.obs['reloadconfig_with_circus_section_edited'] += 1
            res.hist['reloadconfig_reply_after_circus_edit'][str((rep or {}).get('status'))] += 1
            pr = yield w.call('incr', name='p', nb=0, waiting=True)
            res.obs['wedge_probes'] += 1
            if pr is None or pr.get('status') != 'ok':
                res.violation('C10/wedged-after:reloadconfig[circus-section-edited]',
                              'after the reloadconfig that followed the edit %r was over (%s), the probe exclusive '
                              'request was answered %s; slot=%s restarting=%s'
                              % (e, str(rep)[:80], str(pr)[:160], w.arb._exclusive_running_command,
                                 getattr(w.arb, '_restarting', None)))
                return
            # the periodic check still does its job: a killed worker is replaced
            k = w.kernel
            live = k.live(simhist.tag_of('a'))
            if live:
                k.kill(live[0], 9, sender='ext')
                yield w.advance(0.1)
                yield w.check()
                yield w.settle(60)
                if len(k.live(simhist.tag_of('a'))) != 2:
                    res.violation('C10/periodic-check-dead-after:reloadconfig[circus-section-edited]',
                                  'after the edit %r and reloadconfig a killed worker of a is not replaced by the '
                                  'periodic check (live %s)' % (e, k.live(simhist.tag_of('a'))))
                    return
        res.nontrivial(repr(('circus-section', tuple(edits))))
    try:
        w.run(go)
        for v in res.viol[nv:]:
            v['spec'] = dict(spec)
    finally:
        w.close()
        shutil.rmtree(d, ignore_errors=True)
    res.sample = {'case': '[circus] section edited, reloadconfig, probe', 'edits': edits}


def run_chain(spec, res):
    """random chains A,B,C at random polls with random behaviours; slot-free and nesting oracles"""
    rnd = rng_for(spec['seed'], 'C10-chain', spec['chain'])
    h = base_spec(rnd)
    ops = [(rnd.choice(list(A_OPS)), rnd.randint(0, 25)) for _ in range(rnd.randint(2, 4))]
    w = simhist.new_world(h)
    w.nest = {'n': 0, 'max': 0, 'entered': 0, 'overlaps': [], 'open': [], 'tokens': [], 'work': [], 'orphans': []}
    nv = len(res.viol)
    try:
        w.run(lambda: _chain(w, h, ops, res))
        for v in res.viol[nv:]:
            v['spec'] = {'chain': spec['chain'], 'seed': spec['seed']}
    finally:
        w.close()


@gen.coroutine
def _chain(w, h, ops, res):
    yield simhist.boot(w, h)
    yield w.settle(30)
    sent = []
    for aname, gap in ops:
        if aname in ('quit', 'check'):
            continue
        cmd, props = A_OPS[aname]
        if w.stalled is not None or not w.arb.ctrl.started:
            break
        slot = w.arb._exclusive_running_command
        mid = w.req(cmd, **dict(props))
        sent.append((aname, mid, slot))
        for _ in range(gap):
            yield gen.sleep(0.03)
    yield w.settle(200)
    if w.stalled is not None:
        res.obs['stalled(C05 owns)'] += 1
        return
    for aname, mid, slot in sent:
        rb = w.reply(mid)
        if slot is not None and rb is not None and rb.get('status') == 'ok':
            res.violation('C10/accepted-inside:' + aname, 'chain: %s answered ok while %s in flight' % (aname, slot))
        if slot is not None:
            res.nontrivial(repr(('chain', aname, slot, (rb or {}).get('status'))))
            res.obs['B_dispatched_while_slot_held'] += 1
    if w.nest['overlaps']:
        res.violation('C10/two-exclusive-in-flight', 'exclusive entry %s entered while %s in flight'
                      % w.nest['overlaps'][0])
    pr = yield w.call('incr', name='p', nb=0, waiting=True)
    res.obs['wedge_probes'] += 1
    if pr is None or (pr.get('status') == 'error' and 'already running' in str(pr.get('reason'))):
        res.violation('C10/wedged-after-chain', 'after chain %s the probe was answered %s' % (ops, str(pr)[:160]))
    res.obs['chains'] += 1


def starved(merged, tier):
    o = merged['obs']
    out = []
    if o.get('B_dispatched_while_slot_held', 0) < 300:
        out.append('only %d requests were dispatched while the slot was held' % o.get('B_dispatched_while_slot_held', 0))
    if o.get('differential_comparisons', 0) < 200:
        out.append('only %d differential comparisons' % o.get('differential_comparisons', 0))
    if o.get('wedge_probes', 0) < 200:
        out.append('only %d wedge probes' % o.get('wedge_probes', 0))
    return out


def precheck():
    from vlib.calibrate import calibrate
    return calibrate()
