"""C01 — process count converges to the configured target and then stays put.

Engine SIM.  Refuted by (after the history, once nothing is in flight, within K<=3 periodic
checks): live workers in the kernel != numprocesses the daemon reports; a value <0 or >1
for a singleton; a worker older than the last completed restart / non-send_hup reload;
any spawn or signal during three further idle checks.
"""
from tornado import gen

from vlib import simhist, simgen
from vlib.common import CaseResult, rng_for
from vlib.sim import EPOCH

ID = 'C01'
LEVEL = 'exploration'
RULE = ('random histories (1-8 steps over incr/decr/set numprocesses/restart/reload x3/external '
        'SIGKILL/self exit/periodic check/advance/death injected at a kernel-call boundary) on one or two '
        'watchers with random numprocesses, singleton, warmup_delay, graceful_timeout and worker '
        'behaviours (dies at once, late, just before/after the timeout, ignores the stop signal), plus for '
        'a systematic subset a death injected at every kernel-call boundary of the last operation; a '
        'history is non-trivial when the kernel ledger changed after boot (spawn/exit/signal) and the '
        'convergence oracle was evaluated; distinct = distinct canonical kernel traces (pids renamed, '
        'times bucketed to 0.1 s)')
ASSUMPTIONS = ['simulated kernel matches psutil/subprocess semantics (checked by vlib.calibrate)',
               'periodic check driven by hand exactly as tornado PeriodicCallback would (check_delay=-1)',
               'on-demand watchers, respawn=False and max_age>0 are outside the statement']
BUDGET = {'quick': 240, 'thorough': 1500}
CASE_TIMEOUT = 60
K_CHECKS = 3

OPS = ['incr', 'decr', 'setnp', 'restart', 'reload', 'reloadseq', 'reloadterm', 'extkill',
       'selfexit', 'check', 'advance', 'dieat', 'dieat', 'kill', 'killpid', 'clockat']


def gen_spec(rnd, boundary=None):
    gt = rnd.choice([0, .25, 1.0])
    single = rnd.random() < .15
    n = rnd.choice([0, 1, 2, 3, 4])
    if single:
        n = min(n, 1)
    behs = [{}, {'15': ['die', 0.1]}, {'15': ['die', max(0, gt - .05)]}, {'15': ['die', gt]},
            {'15': ['die', gt + .3]}, {'15': ['ignore']}, {'15': ['exit', 0.05, 3]}]
    w = {'name': 'a', 'numprocesses': n, 'graceful_timeout': gt, 'warmup_delay': rnd.choice([0, 0, .3]),
         'singleton': single, 'beh': [rnd.choice(behs) for _ in range(rnd.randint(1, 4))]}
    ws = [w]
    if rnd.random() < .3:
        ws.append({'name': 'b', 'numprocesses': rnd.choice([1, 2]), 'graceful_timeout': rnd.choice([0, .25]),
                   'beh': [rnd.choice(behs)]})
    steps = []
    for i in range(rnd.randint(1, 8)):
        k = rnd.choice(OPS)
        name = rnd.choice([x['name'] for x in ws])
        wait = rnd.random() < .5
        if k == 'incr':
            steps.append(['req', 'incr', {'name': name, 'nb': rnd.choice([1, 2]), 'waiting': wait}])
        elif k == 'decr':
            steps.append(['req', 'decr', {'name': name, 'nb': rnd.choice([1, 2, 5]), 'waiting': wait}])
        elif k == 'setnp':
            steps.append(['req', 'set', {'name': name, 'options': {'numprocesses': rnd.choice([-1, 0, 1, 2, 4])},
                                        'waiting': wait}])
        elif k == 'restart':
            steps.append(['req', 'restart', {'name': name, 'waiting': wait}])
        elif k == 'reload':
            steps.append(['req', 'reload', {'name': name, 'waiting': wait}])
        elif k == 'reloadseq':
            steps.append(['req', 'reload', {'name': name, 'sequential': True, 'waiting': wait}])
        elif k == 'reloadterm':
            steps.append(['req', 'reload', {'name': name, 'graceful': False, 'waiting': wait}])
        elif k == 'kill':
            steps.append(['req', 'kill', {'name': name, 'waiting': wait}])
        elif k == 'killpid':
            steps.append(['killpid', name, rnd.randint(0, 3)])
        elif k == 'extkill':
            steps.append(['extkill', name, rnd.randint(0, 3), 9])
        elif k == 'selfexit':
            steps.append(['die', name, rnd.randint(0, 3), simhist.wstatus('exit', rnd.randint(0, 255))])
        elif k == 'check':
            steps.append(['check'])
        elif k == 'advance':
            steps.append(['adv', rnd.choice([0.05, .2, 1, 3])])
        elif k == 'dieat':
            steps.append(['inject_death', rnd.randint(1, 14), name, rnd.randint(0, 3),
                          rnd.choice([9, 15, 768, 0])])
        elif k == 'clockat':
            steps.append(simgen.gen_step(rnd, [name], ['clockat']))
        if rnd.random() < .5:
            steps.append(['adv', rnd.choice([0, .05, .3])])
    spec = {'kill_latency': rnd.choice([0.0, 0.0, 0.0005, 0.002]), 'watchers': ws, 'steps': steps}
    # transient spawn faults: the n-th process creation fails (with max_retry 1 the spawn is given up), or the
    # before_spawn hook refuses / fails once
    if rnd.random() < .12:
        # max_age configured but far away (nothing expires during the history), with and without variance
        w['max_age'] = 100000
        w['max_age_variance'] = rnd.choice([0, 0, 30])
    f = rnd.random()
    if f < .08:
        w['max_retry'] = 1
        a = rnd.randint(n + 1, n + 8)
        spec['spawn_fail'] = [a]
    elif f < .13:
        a = rnd.randint(n + 1, n + 8)
        spec['spawn_fail'] = list(range(a, a + 5))          # max_retry (5) consecutive failures
    elif f < .22:
        w['hooks'] = {'before_spawn': ['%s@%d' % (rnd.choice(['false', 'raise']), rnd.randint(n + 1, n + 6)), False]}
    return spec


def plan(tier, seed):
    n = 6000 if tier == 'quick' else 120000
    out = [{'kind': 'random', 'seed': seed, 'idx': i} for i in range(n)]
    # systematic: for base histories, inject a death at every kernel-call boundary of the last request
    nb = 150 if tier == 'quick' else 3000
    out += [{'kind': 'sweep', 'seed': seed, 'idx': i} for i in range(nb)]
    out += [{'kind': 'singleton-reloadconfig', 'seed': seed, 'idx': i} for i in range(8 if tier == 'quick' else 100)]
    return out


def materialise(spec):
    if 'steps' in spec:
        return [spec]
    rnd = rng_for(spec['seed'], 'C01', spec['kind'], spec['idx'])
    h = gen_spec(rnd)
    if spec['kind'] == 'random':
        return [h]
    # sweep: last step becomes an operation; dry run counts its kernel-call boundaries
    op = rnd.choice([['req', 'incr', {'name': 'a', 'nb': 1}], ['req', 'decr', {'name': 'a', 'nb': 1}],
                     ['req', 'reload', {'name': 'a'}], ['req', 'reload', {'name': 'a', 'sequential': True}],
                     ['req', 'restart', {'name': 'a'}], ['check'],
                     ['req', 'set', {'name': 'a', 'options': {'numprocesses': rnd.choice([0, 1, 3])}}]])
    h['steps'] = [s for s in h['steps'] if s[0] != 'inject_death'][:4]
    h['_sweep_op'] = op
    h['_sweep_status'] = rnd.choice([9, 15, 0, 768])
    return [h]


def singleton_reloadconfig(spec, res):
    """'at most one for a singleton' also when numprocesses comes from an edited configuration file"""
    import os
    import shutil
    import tempfile
    rnd = rng_for(spec['seed'], 'C01-single', spec['idx'])
    d = tempfile.mkdtemp(prefix='verif-c01-')
    path = os.path.join(d, 'c.ini')

    def write(n):
        with open(path, 'w') as f:
            f.write('[circus]\ncheck_delay = -1\nendpoint = ipc:///sim/ctrl\npubsub_endpoint = ipc:///sim/pub\n\n'
                    '[watcher:s]\ncmd = w_s\nsingleton = true\nnumprocesses = %d\ngraceful_timeout = 0.1\n' % n)
    write(1)
    w = simhist.new_world({})
    try:
        @gen.coroutine
        def go():
            arb = w.load_arbiter(path)
            yield arb.start()
            yield w.settle(30)
            write(rnd.choice([2, 3, 5]))
            rep = yield w.call('reloadconfig', waiting=True)
            yield w.settle(30)
            for _ in range(3):
                yield w.advance(1.0)
                yield w.check()
                yield w.settle(30)
            live = w.kernel.live('w_s')
            target = simhist.reported_numprocesses(w, 's')
            res.obs['singleton_reloadconfig_cases'] += 1
            if len(live) > 1 or (target is not None and target > 1):
                res.violation('C01/range', 'singleton watcher runs %d workers (numprocesses=%s) after the file was edited and '
                              'reloadconfig answered %s' % (len(live), target, (rep or {}).get('status')))
            res.nontrivial(repr(('singleton-reloadconfig', len(live), (rep or {}).get('status'))))
        w.run(go)
    finally:
        w.close()
        shutil.rmtree(d, ignore_errors=True)
    res.sample = {'case': 'singleton watcher, numprocesses edited to >1 in the file, reloadconfig'}


def run_case(spec):
    res = CaseResult()
    if spec.get('kind') == 'singleton-reloadconfig':
        singleton_reloadconfig(spec, res)
        return res
    for h in materialise(spec):
        if '_sweep_op' in h:
            op = h.pop('_sweep_op')
            st = h.pop('_sweep_status')
            base = dict(h)
            base['steps'] = h['steps'] + [['mark'], op]
            n = run_history(base, res, dry=True)
            res.obs['sweep_bases'] += 1
            for b in range(1, min(n, 60) + 1):
                hh = dict(h)
                hh['steps'] = h['steps'] + [['inject_death', b, 'a', b, st], op]
                run_history(hh, res)
                res.obs['boundaries_injected'] += 1
            res.hist['boundaries_of_last_op'][min(n, 60)] += 1
        else:
            run_history(h, res)
    if res.sample is None:
        res.sample = {'spec': spec}
    return res


def run_history(h, res, dry=False):
    w = simhist.new_world(h)
    out = {'n': 0}
    nv = len(res.viol)
    try:
        w.run(lambda: _history(w, h, res, dry, out))
        for v in res.viol[nv:]:
            v['spec'] = h
        if w.breach():
            res.inconclusive.append('containment breach: %s' % w.breach()[:3])
    finally:
        w.close()
    return out['n']


@gen.coroutine
def _history(w, h, res, dry, out):
    k = w.kernel
    yield simhist.boot(w, h)
    r = simhist.Runner(w, h)
    log0 = len(k.log)
    fresh = {}      # watcher name -> (mid, before-set, label) for accepted restart/reload
    calls_mark = [None]

    def before(i, st):
        if st[0] == 'mark':
            calls_mark[0] = k.calls
        if st[0] == 'req' and st[1] in ('restart', 'reload'):
            name = st[2]['name']
            tag = simhist.tag_of(name)
            pre = set(p.pid for p in k.procs.values() if p.tag == tag and p.spawn_no and p.state != 'gone')
            wobj = w.arb.get_watcher(name)
            fresh['_pending'] = (name, pre, st, wobj.status(), bool(getattr(wobj, 'send_hup', False)))
            fresh['_t'] = round(w.now(), 6)

    def after(i, st):
        if '_pending' in fresh:
            name, pre, st_, status0, hup = fresh.pop('_pending')
            mid = r.mids[-1][1]
            rep = w.reply(mid)
            accepted = (rep is not None and rep.get('status') == 'ok') or (rep is None and st_[2].get('waiting'))
            if accepted and not hup:
                label = 'restart' if st_[1] == 'restart' else (
                    'reload-terminate' if st_[2].get('graceful') is False else
                    ('reload-sequential' if st_[2].get('sequential') else 'reload-graceful'))
                fresh[name] = (mid, pre, label, st_[2].get('waiting', False), fresh.get('_t', 0.0))

    steps = [s for s in h['steps']]
    real_steps = [s for s in steps if s[0] != 'mark']
    # 'mark' is a pseudo-step used by the dry run only
    yield _run(r, steps, before, after)
    if w.stalled is not None:
        res.obs['histories_stalled(C05 owns)'] += 1
        return
    took = yield w.settle(180.0)
    if dry:
        out['n'] = k.calls - (calls_mark[0] or k.calls)
    k.inject.clear()
    w.sel.hooks.clear()
    if w.stalled is not None:
        res.obs['histories_stalled(C05 owns)'] += 1
        return
    if took is None and w.pending_timers():
        res.obs['histories_not_quiescent(C05 owns)'] += 1
        return
    if took is None:
        # nothing is scheduled any more, yet the exclusive slot is taken: no request is in flight in any sense the
        # statement could mean, so the watchers are judged (C10 owns the leaked slot itself)
        res.obs['histories_with_the_slot_taken_while_nothing_runs(judged)'] += 1
    yield w.advance(0.05)        # SIGKILLed processes finish dying
    judged = 0
    converged = []
    for conf in h['watchers']:
        name = conf['name']
        tag = simhist.tag_of(name)
        status = simhist.reported_status(w, name)
        if status != 'active':
            res.obs['watcher_not_active:%s' % status] += 1
            continue
        need = None
        for kchk in range(K_CHECKS + 1):
            live = k.live(tag)
            target = simhist.reported_numprocesses(w, name)
            if target is not None and len(live) == target:
                need = kchk
                break
            if kchk == K_CHECKS:
                break
            yield w.advance(1.0)      # periodic checks are check_delay apart
            yield w.check()
            t2 = yield w.settle(180.0)
            if w.stalled is not None or (t2 is None and w.pending_timers()):
                res.obs['histories_stalled(C05 owns)'] += 1
                return
        if need is None and simhist.reported_status(w, name) != 'active':
            # a spawn that could not be made (all retries failed, or before_spawn refused) stops the watcher, as
            # documented for spawn_process; the statement is about active watchers
            res.obs['watcher_stopped_itself_after_a_failed_spawn(not judged)'] += 1
            continue
        judged += 1
        res.hist['checks_to_converge'][str(need)] += 1
        target = simhist.reported_numprocesses(w, name)
        if need is None:
            res.violation('C01/no-convergence', 'after %d periodic checks watcher %s has %d live workers, reports '
                          'numprocesses=%s' % (K_CHECKS, name, len(k.live(tag)), target),
                          live=k.live(tag), target=target, steps=real_steps)
            continue
        # the target itself: what the accepted incr / decr / set requests add up to (a refused one changes nothing)
        model = conf['numprocesses']
        for _i, mid_, cmd_, props_ in r.mids:
            if model is None or not isinstance(props_, dict) or props_.get('name', '').lower() != name.lower():
                continue
            if cmd_ not in ('incr', 'decr', 'set'):
                continue
            rep_ = w.reply(mid_)
            if rep_ is None:
                model = None                       # never answered: C05 / C06 own that
            elif rep_.get('status') != 'ok':
                reason = str(rep_.get('reason'))
                if not ('already running' in reason or 'restarting' in reason or 'ingleton' in reason):
                    model = None                   # failed part-way: what it left behind is not specified here
            elif cmd_ == 'set':
                if 'numprocesses' in (props_.get('options') or {}):
                    model = max(0, int(props_['options']['numprocesses']))
            elif not conf.get('singleton'):
                nb = props_.get('nb', 1)
                model = max(0, model + nb if cmd_ == 'incr' else model - nb)
        if model is None:
            res.obs['target_model_unknown(not judged)'] += 1
        else:
            res.obs['targets_compared_with_the_accepted_requests'] += 1
            if model != target:
                res.violation('C01/target-differs-from-the-accepted-requests',
                              'watcher %s: configured numprocesses %s, the accepted incr/decr/set requests add up to %s, the '
                              'daemon reports (and runs) %s' % (name, conf['numprocesses'], model, target), steps=real_steps)
        if target < 0 or (conf.get('singleton') and target > 1):
            res.violation('C01/range', 'numprocesses=%s out of range (singleton=%s)' % (target, conf.get('singleton')))
        if name in fresh:
            mid, pre, label, waiting, t_req = fresh[name]
            rep = w.reply(mid)
            # "completed": a waiting request is answered ok when the operation is over; for a non-waiting one the
            # ok only means accepted, completion shows on the event channel (reload event, or stop then start)
            evs = [(t, topic.split('.')[-1]) for t, topic, msg in w.events()
                   if topic.startswith('watcher.%s.' % w.arb.get_watcher(name).res_name) and t >= t_req]
            if label in ('reload-graceful', 'reload-sequential'):
                completed = any(kind == 'reload' for t, kind in evs)
            else:
                stops = [t for t, kind in evs if kind == 'stop']
                completed = bool(stops) and any(kind == 'start' and t >= stops[0] for t, kind in evs)
            if rep is not None and rep.get('status') == 'ok' and not waiting and not completed:
                res.obs['accepted_but_not_completed:%s(not judged)' % label] += 1
            if rep is not None and rep.get('status') == 'ok' and (waiting or completed):
                old = sorted(set(k.live(tag)) & pre)
                res.obs['freshness_judged:' + label] += 1
                if old:
                    res.violation('C01/not-fresh:' + label,
                                  'after a completed %s of %s, worker(s) %s started before the request are still '
                                  'running' % (label, name, old), old=old, steps=real_steps)
        converged.append((name, tag))
    # fixpoint: once every judged watcher has converged, idle checks change nothing
    if converged:
        l0 = len(k.log)
        for j in range(3):
            yield w.advance(1.0)
            yield w.check()
        yield w.advance(1.0)
        res.obs['fixpoint_checks'] += 3
        for name, tag in converged:
            mine = set(p.pid for p in k.procs.values() if p.tag == tag)
            extra = [e for e in k.log[l0:] if e[1] in ('spawn', 'signal') and e[2] in mine]
            conf_ = [c for c in h['watchers'] if c['name'] == name][0]
            if extra and conf_.get('max_age') and \
                    w.clock.wall_offset >= conf_['max_age'] - conf_.get('max_age_variance', 30) - 600:
                # the wall clock was stepped forward by more than max_age: by the daemon's clock the workers ARE too
                # old, their replacement is "a max_age expiry", which the statement allows
                res.obs['fixpoint_not_judged(max_age_reached_by_wall_clock_steps)'] += 1
                continue
            if extra:
                res.violation('C01/fixpoint:' + extra[0][1], 'idle periodic checks on converged watcher %s '
                              'produced %s' % (name, extra[:3]), steps=real_steps)
    res.obs['watchers_judged'] += judged
    changed = any(e[1] in ('spawn', 'exit', 'signal') for e in k.log[log0:])
    if judged and changed and not dry:
        res.nontrivial(simhist.kernel_sig(w, real_steps))
    if res.sample is None and changed and judged:
        res.sample = {'watchers': h['watchers'], 'steps': real_steps,
                      'kernel_events': len(k.log), 'final_live': k.live()}
    for kind in ('spawn', 'signal', 'exit', 'reaped'):
        res.obs['kernel_' + kind] += sum(1 for e in k.log if e[1] == kind)
    res.obs['kernel_call_boundaries'] += k.calls
    res.obs['selector_polls'] += w.sel.polls


@gen.coroutine
def _run(r, steps, before, after):
    w = r.world
    for i, st in enumerate(steps):
        if w.stalled is not None:
            break
        before(i, st)
        if st[0] == 'killpid':
            pid = simhist.pick(w, st[1], st[2])
            if pid is not None:
                w.req('kill', name=st[1], pid=pid)
        elif st[0] != 'mark':
            yield r.do(i, st)
        after(i, st)


def starved(merged, tier):
    out = []
    o = merged['obs']
    if o.get('watchers_judged', 0) < 100:
        out.append('convergence oracle evaluated on only %d watchers' % o.get('watchers_judged', 0))
    if not any(k.startswith('freshness_judged') for k in o):
        out.append('freshness clause never evaluated')
    if o.get('boundaries_injected', 0) == 0:
        out.append('no kernel-call boundary sweep ran')
    return out


def precheck():
    from vlib.calibrate import calibrate
    return calibrate()
