"""C11 — a request refused as invalid or conflicting changes nothing.

Engine SIM.  In generated daemon states (several watchers, stopped/active, an operation in
flight) valid requests of every command are corrupted by labelled operators; whenever the
reply says `error`, the protocol snapshot taken right before the frame was handed in must equal
the one taken right after (same loop iteration: nothing else can have run), and the kernel
ledger must not have grown (no spawn, no signal).
"""
import copy
import json
import os
import tempfile

from tornado import gen

from vlib import simhist
from vlib.common import CaseResult, rng_for

ID = 'C11'
LEVEL = 'exploration'
RULE = ('per world: 1-3 watchers (active / stopped / singleton), optionally a slow restart in flight, optionally '
        'endpoint-owner mode; 12 requests each built from a valid template of one of the registered commands and '
        'corrupted by one or two labelled operators: unknown command, unknown watcher, missing property, ill-typed '
        'property, invalid option key, invalid option value (type-level or apply-time) at every position of a '
        'multi-option set/add, bad signal, duplicate name in any case, conflict with the operation in flight, wrong '
        'uid in endpoint-owner mode, invalid JSON. non-trivial = the reply was an error and the before/after '
        'comparison ran; distinct = (command, operators, error reason class, state class)')
ASSUMPTIONS = ['only synchronous error replies are judged (that is what a validation-class refusal is)',
               'requests answered ok are not this property (lenient acceptance is allowed)',
               'time fields and stats ages are excluded from the snapshot']
BUDGET = {'quick': 240, 'thorough': 1500}

VALID_OPTS = [('numprocesses', 2), ('warmup_delay', 0.5), ('graceful_timeout', 3.0), ('stop_signal', 2),
              ('max_retry', 3), ('send_hup', True), ('stop_children', True), ('max_age', 0),
              ('respawn', True), ('working_dir', '/tmp'), ('env', {'K': 'v'}), ('max_age_variance', 5)]
# values that pass validate_option but fail when applied
APPLY_FAIL = [('uid', 'nosuchuser_zz'), ('gid', 'nosuchgroup_zz'), ('hooks.before_start', 'no.such.module.fn'),
              ('stdout_stream.class', 'NoSuchStreamClass'), ('stop_signal', 999999)]
TYPE_FAIL = [('stop_signal', 'SIGNOSUCHSIGNAL'), ('stop_signal', 'kill9'), ('numprocesses', 'two'), ('warmup_delay', 'x'), ('send_hup', 'yes'), ('env', {'K': 1}),
             ('env', 'K=v'), ('nosuchkey', 1), ('stop_signal', 'TERM'), ('hooks', {'nosuchhook': 'a.b'}),
             ('stdout_stream', {'noclass': 1}), ('rlimit_nosuch', 5), ('max_retry', 1.5), ('graceful_timeout', None)]


def templates(names, pids):
    n = names[0]
    t = [
        ('incr', {'name': n, 'nb': 1}), ('decr', {'name': n, 'nb': 1}),
        ('set', {'name': n, 'options': {'warmup_delay': 0.7}}),
        ('set', {'name': n, 'options': {'numprocesses': 3}}),
        ('set', {'name': n, 'options': dict(VALID_OPTS[:3])}),
        # options whose change makes the watcher reload its workers
        ('set', {'name': n, 'options': {'graceful_timeout': 2.0, 'env': {'K': 'v'}}}),
        ('set', {'name': n, 'options': {'max_age_variance': 5, 'numprocesses': 2, 'max_age': 0}}),
        ('get', {'name': n, 'keys': ['numprocesses']}), ('options', {'name': n}),
        ('start', {'name': n}), ('stop', {'name': n}), ('restart', {'name': n}), ('reload', {'name': n}),
        ('kill', {'name': n, 'signum': 15}), ('signal', {'name': n, 'signum': 10}),
        ('rm', {'name': n}), ('add', {'name': 'newone', 'cmd': 'w_newone', 'options': {'numprocesses': 1}}),
        ('add', {'name': 'newtwo', 'cmd': 'w_newtwo', 'start': True, 'options': dict(VALID_OPTS[:2])}),
        # the documented `hooks` option of add (a mapping hook name -> dotted name), resolvable or not
        ('add', {'name': 'newhk', 'cmd': 'w_newhk', 'options': {'numprocesses': 1, 'hooks': {'before_start': 'no.such.module.fn'}}}),
        ('add', {'name': 'newhk2', 'cmd': 'w_newhk2', 'start': True,
                 'options': {'hooks': {'after_start': 'os.getcwd', 'before_stop': 'nosuchmodule_zz.f'}}}),
        ('status', {'name': n}), ('list', {'name': n}), ('numprocesses', {'name': n}), ('stats', {'name': n}),
        ('numwatchers', {}), ('globaloptions', {}), ('listsockets', {}), ('dstats', {}), ('reloadconfig', {}),
    ]
    if pids:
        t.append(('signal', {'name': n, 'pid': pids[0], 'signum': 10}))
        t.append(('kill', {'name': n, 'pid': pids[0]}))
        t.append(('stats', {'name': n, 'process': pids[0]}))
    return t


def corrupt(rnd, cmd, props, names, inflight, owner_mode):
    """-> (cmd, props or raw bytes, [operator labels])"""
    props = copy.deepcopy(props)
    ops = []
    choices = ['unknown_command', 'unknown_watcher', 'missing_prop', 'illtyped_prop', 'bad_json', 'case_name']
    if cmd in ('set', 'add'):
        choices += ['bad_opt_key', 'bad_opt_type', 'bad_opt_apply', 'bad_opt_apply', 'bad_opt_type']
    if cmd in ('kill', 'signal'):
        choices += ['bad_signal', 'bad_signal']
    if cmd == 'add':
        choices += ['dup_name', 'dup_name']
        if owner_mode:
            choices += ['wrong_uid'] * 3
    if inflight:
        choices += ['conflict'] * 3
    if cmd == 'get':
        choices += ['bad_get_key']
    if rnd.random() < .08 and cmd not in ('add',):
        # `waiting` given as something else than a JSON boolean
        props['waiting'] = rnd.choice([0, 1, '', 'no', 'x', 'true', None, [], 2.5])
        return cmd, props, ['odd_waiting']
    if rnd.random() < .06:
        # the `properties` member itself is not a JSON object
        bad = rnd.choice([[], '', 'x', [1], 0, None, True, [props], json.dumps(props)])
        raw = json.dumps({'id': 'RAW', 'command': cmd, 'properties': bad})
        return cmd, raw.encode('latin1'), ['illtyped_properties']
    if rnd.random() < .12:
        # left as it is: a well-formed request may still be refused (conflict, a hook's veto, ...) and the same
        # rule applies to it
        return cmd, props, ['none(valid)']
    for _ in range(rnd.choice([1, 1, 1, 2])):
        op = rnd.choice(choices)
        ops.append(op)
        if op == 'unknown_command':
            cmd = rnd.choice(['nosuchcmd', 'STOPP', '', 'set ', 'quit2'])
        elif op == 'unknown_watcher' and 'name' in props and cmd != 'add':
            props['name'] = rnd.choice(['nosuch', 'a ', 'aa', '*x'])
        elif op == 'missing_prop' and props:
            props.pop(rnd.choice(sorted(props)))
        elif op == 'illtyped_prop' and props:
            k = rnd.choice(sorted(props))
            props[k] = rnd.choice([None, 123, ['x'], {'a': 1}, True, 'x' * 3, -1, 1.5])
        elif op == 'bad_json':
            raw = json.dumps({'id': 'RAW', 'command': cmd, 'properties': props})
            raw = rnd.choice([raw[:-1], raw.replace('{', '[', 1), raw + '}', '\xff' + raw, raw.replace('"', "'")])
            return cmd, raw.encode('latin1'), ops
        elif op == 'case_name' and 'name' in props and isinstance(props['name'], str):
            props['name'] = props['name'].upper()
            ops[-1] = 'case_name(valid)'
        elif op in ('bad_opt_key', 'bad_opt_type', 'bad_opt_apply') and isinstance(props.get('options'), dict):
            good = rnd.sample(VALID_OPTS, rnd.randint(0, 3))
            bad = rnd.choice(APPLY_FAIL if op == 'bad_opt_apply' else TYPE_FAIL)
            if op == 'bad_opt_key':
                bad = (rnd.choice(['nosuchkey', 'NumProcesses', 'hooks.nosuch', '']), 1)
            pos = rnd.randint(0, len(good))
            items = good[:pos] + [bad] + good[pos:]
            props['options'] = dict(items)
            ops[-1] = '%s@%d/%d' % (op, pos, len(items))
        elif op == 'bad_signal':
            props['signum'] = rnd.choice(['NOSUCHSIG', 'SIGFOO', '', None, [15], {'x': 1}, 'kill9'])
        elif op == 'dup_name':
            n = rnd.choice(names)
            props['name'] = rnd.choice([n, n.upper(), n.capitalize()])
        elif op == 'wrong_uid':
            if not isinstance(props.get('options'), dict):
                props['options'] = {}
            props['options']['uid'] = rnd.choice(['nobody', 12345, 'daemon'])
        elif op == 'conflict':
            pass
        elif op == 'bad_get_key':
            props['keys'] = ['numprocesses', 'nosuchoption']
    return cmd, props, ops


def plan(tier, seed):
    n = 900 if tier == 'quick' else 7000
    return CORE + [{'seed': seed, 'idx': i} for i in range(n)]


# a fixed core that does not depend on the seed: endpoint-owner mode, where uid / gid are restricted
_OWNER_H = {'watchers': [{'name': 'a', 'numprocesses': 2, 'graceful_timeout': 1.0, 'warmup_delay': 0.3,
                          'beh': [{'15': ['die', 0.4]}]},
                         {'name': 'B b', 'numprocesses': 1, 'graceful_timeout': 0.2}],
            'inflight': False, 'owner_mode': True, 'cwd_removed': False}
CORE = [
    {'seed': 0, 'idx': 10 ** 6 + 0, 'h': _OWNER_H, 'requests': [
        ['set', {'name': 'a', 'options': {'warmup_delay': 0.2, 'numprocesses': 3, 'uid': 'nobody'}}, ['core:owner-mode-set-uid-last']],
        ['set', {'name': 'a', 'options': {'uid': 'daemon'}}, ['core:owner-mode-set-uid-alone']],
        ['set', {'name': 'B b', 'options': {'graceful_timeout': 0.5, 'gid': 'nogroup', 'numprocesses': 2}}, ['core:owner-mode-set-gid']],
        ['add', {'name': 'nx', 'cmd': 'w_nx', 'options': {'numprocesses': 1, 'uid': 'daemon'}}, ['core:owner-mode-add-other-uid']],
        ['add', {'name': 'ny', 'cmd': 'w_ny', 'start': True, 'options': {'uid': 12345, 'graceful_timeout': 2}}, ['core:owner-mode-add-other-uid']],
        ['add', {'name': 'nz', 'cmd': 'w_nz', 'options': {'uid': 'root'}}, ['core:owner-mode-add-own-uid']],
    ]},
    {'seed': 0, 'idx': 10 ** 6 + 1, 'h': dict(_OWNER_H, inflight=True), 'requests': [
        ['set', {'name': 'B b', 'options': {'numprocesses': 2, 'uid': 'nobody'}}, ['core:owner-mode-set-uid-last']],
        ['add', {'name': 'nx', 'cmd': 'w_nx', 'options': {'uid': 'daemon'}}, ['core:owner-mode-add-other-uid']],
    ]},
]


def gen_world(rnd):
    ws = [{'name': 'a', 'numprocesses': 2, 'graceful_timeout': 1.0, 'warmup_delay': 0.3,
           'beh': [{'15': ['die', 0.4]}]}]
    if rnd.random() < .2:
        # a signal hook that vetoes or fails for one particular delivery only
        ws[0]['hooks'] = {'before_signal': ['%s@%d' % (rnd.choice(['false', 'raise']), rnd.randint(1, 5)), False]}
    if rnd.random() < .7:
        ws.append({'name': 'B b', 'numprocesses': 1, 'graceful_timeout': 0.2})
    if rnd.random() < .5:
        ws.append({'name': 'st', 'numprocesses': 1, 'autostart': False})
    if rnd.random() < .3:
        ws.append({'name': 'sg', 'numprocesses': 1, 'singleton': True})
    return {'watchers': ws, 'inflight': rnd.random() < .4, 'owner_mode': rnd.random() < .2,
            # the directory the daemon was started in (the default working_dir of its watchers) is removed under it
            'cwd_removed': rnd.random() < .12}


def run_case(spec):
    res = CaseResult()
    rnd = rng_for(spec['seed'], 'C11', spec['idx'])
    if 'requests' in spec:
        h = spec['h']
        reqs = spec['requests']
    else:
        h = gen_world(rnd)
        reqs = None
    w = simhist.new_world(h)
    nv = len(res.viol)
    done = []
    home = os.getcwd()
    gone = None
    if h.get('cwd_removed'):
        gone = tempfile.mkdtemp(prefix='verif-c11-cwd-')
        os.chdir(gone)
        h = dict(h, _rm_cwd=gone)
        res.obs['worlds_whose_start_directory_is_removed'] += 1
    try:
        w.run(lambda: _world(w, h, rnd, reqs, res, done))
        for v in res.viol[nv:]:
            v['spec'] = {'h': h, 'requests': v['detail'].pop('_req'), 'seed': spec['seed'], 'idx': spec['idx']}
        if w.breach():
            res.inconclusive.append('containment breach')
    finally:
        w.close()
        os.chdir(home)
        if gone and os.path.isdir(gone):
            os.rmdir(gone)
    return res


def _only_validation_class(options):
    """does the request carry an option that validation refuses (bad type / key / signal) and none of the values that
    pass validation and fail when applied (the known mechanism)?"""
    def hashable(v):
        try:
            hash(v)
            return True
        except TypeError:
            return False
    tf = [(k, v) for k, v in options.items() if any(k == tk and hashable(v) and hashable(tv) and v == tv for tk, tv in TYPE_FAIL)
          or k in ('nosuchkey', 'NumProcesses', '')]
    af = [(k, v) for k, v in options.items() if any(k == ak and v == av for ak, av in APPLY_FAIL)
          or (k.startswith('hooks.') and not isinstance(v, str))]
    return bool(tf) and not af


def snap(w):
    s = w.snapshot(with_stats=True)
    led = sum(1 for e in w.kernel.log if e[1] in ('spawn', 'signal'))
    hooks = {x.name: sorted(x.hooks) for x in w.arb.watchers}
    # which exclusive operation holds the slot (hooked state): a refused request must not free or take it
    hooks['<exclusive-slot>'] = w.arb._exclusive_running_command
    return s, led, hooks


def reason_class(r):
    r = str(r)
    for k in ('already running', 'not found', 'is missing', 'unknown command', 'json invalid', 'unknown key',
              "isn't", 'signal invalid', 'already exist', 'endpoint_owner', 'option not found', 'should be'):
        if k in r:
            return k
    if r.startswith('command b') or r.startswith("command '"):
        return 'exception: ' + r.rsplit("': ", 1)[-1][:40]
    return 'other:' + r[:25]


@gen.coroutine
def _world(w, h, rnd, reqs, res, done):
    from circus.watcher import Watcher
    ws = [simhist.make_watcher(w, c) for c in h['watchers']]
    kw = {}
    if h.get('owner_mode'):
        kw['endpoint_owner'] = 'root'
    arb = w.make_arbiter(ws, **kw)
    yield arb.start()
    yield w.settle(30)
    names = [c['name'] for c in h['watchers']]
    if h.get('_rm_cwd') and os.path.isdir(h['_rm_cwd']):
        os.rmdir(h['_rm_cwd'])
    state = 'idle'
    if h.get('inflight'):
        w.req('restart', name='a')             # slow: workers take 0.4 s to die, 0.3 s warmup
        state = 'restart-in-flight'
    n = 12 if reqs is None else len(reqs)
    for i in range(n):
        if w.stalled is not None:
            break
        inflight = w.arb._exclusive_running_command is not None
        pids = w.kernel.live('w_a')
        if reqs is None and h['watchers'][0].get('hooks') and i < 4 and rnd.random() < .7:
            # whole-watcher deliveries while one particular delivery is vetoed by the hook
            cmd, props, ops = rnd.choice(['signal', 'signal', 'kill']), {'name': 'a', 'signum': rnd.choice([28, 23, 17])}, \
                ['none(valid)']
            if cmd == 'signal' and rnd.random() < .3:
                props['recursive'] = True
        elif reqs is None:
            cmd, props = rnd.choice(templates(rnd.sample(names, len(names)), pids))
            cmd, props, ops = corrupt(rnd, cmd, props, names, inflight, h.get('owner_mode'))
        else:
            cmd, props, ops = reqs[i]
            if isinstance(props, str):
                props = props.encode('latin1')
        before = snap(w)
        if isinstance(props, bytes):
            rec = w.send_raw(props, mid='RAW%d' % i)
            nrep = rec['frames_sync'] // 2
            rep = w.replies()[-1][3] if nrep else None
            mid = None
        else:
            mid = w.req(cmd, **props)
            rec = w.sent[mid]
            rep = w.reply(mid) if rec['frames_sync'] else None
        after = snap(w)
        res.obs['requests'] += 1
        if isinstance(rep, dict) and rep.get('status') == 'error':
            res.obs['error_replies'] += 1
            rc = reason_class(rep.get('reason'))
            res.hist['error_reason_class'][rc] += 1
            res.nontrivial(repr((cmd, sorted(o.split('@')[0] for o in ops), rc, inflight)))
            if before != after:
                diff = _diff(before, after)
                mech = 'other'
                if 'illtyped_properties' in ops:
                    mech = 'the-properties-member-is-not-an-object'
                if cmd == 'set' and isinstance(props, dict) and isinstance(props.get('options'), dict):
                    # is the change confined to the options / hooks of the addressed watcher?
                    b2, a2 = copy.deepcopy(before), copy.deepcopy(after)
                    for sn in (b2, a2):
                        for wn, d in (sn[0].get('per') or {}).items():
                            if isinstance(props.get('name'), str) and wn.lower() == props['name'].lower():
                                d['options'] = None
                        sn[2].clear()
                    conflict = 'already running' in str(rep.get('reason')) or 'restarting' in str(rep.get('reason'))
                    if b2 == a2 and conflict:
                        mech = 'applied-although-refused-as-conflicting'
                    elif b2 == a2 and rep.get('errno') == 3:
                        # errno 3 = MESSAGE_ERROR: the request was refused by *validation*, yet something was applied
                        mech = 'applied-although-refused-by-validation'
                    elif b2 == a2 and len(props['options']) == 1:
                        # one option only, and it is the one that was refused: nothing "before the failing one"
                        mech = 'the-refused-option-itself-was-stored'
                    elif b2 == a2 and _only_validation_class(props['options']):
                        # an option that validation is documented to refuse (bad type, bad key, bad signal) was only
                        # caught while the options were being applied
                        mech = 'invalid-option-caught-only-at-apply-time'
                    elif b2 == a2 and len(props['options']) >= 1 and not any(o.startswith('conflict') for o in ops):
                        # the known mechanism needs an option that passes validation and fails when applied
                        mech = 'options-applied-one-by-one'
                res.violation('C11/changed-after-error:%s[%s]' % (cmd, mech),
                              'request %s %s (operators %s) was answered error (%s) but the daemon changed: %s'
                              % (cmd, json.dumps(props, default=str)[:300] if not isinstance(props, bytes) else props[:120],
                                 ops, str(rep.get('reason'))[:100], diff),
                              _req=[[cmd, props if not isinstance(props, bytes) else props.decode('latin1'), ops]])
            if res.sample is None:
                res.sample = {'state': state, 'request': [cmd, props if not isinstance(props, bytes) else repr(props)],
                              'operators': ops, 'reply': {k: rep.get(k) for k in ('status', 'reason', 'errno')}}
        elif isinstance(rep, dict):
            res.obs['ok_replies(not judged)'] += 1
        else:
            res.obs['no_sync_reply(C06 owns)'] += 1
        if rnd.random() < .3:
            yield gen.sleep(rnd.choice([0.05, 0.2]))
        if not w.arb.ctrl.started:
            break
    res.obs['worlds'] += 1
    res.obs['worlds:' + state] += 1


def _diff(a, b):
    ja, jb = json.dumps(a, sort_keys=True, default=str), json.dumps(b, sort_keys=True, default=str)
    i = 0
    while i < min(len(ja), len(jb)) and ja[i] == jb[i]:
        i += 1
    return 'before …%s… / after …%s…' % (ja[max(0, i - 60):i + 60], jb[max(0, i - 60):i + 60])


def starved(merged, tier):
    o = merged['obs']
    out = []
    if o.get('error_replies', 0) < 2000:
        out.append('only %d error replies judged' % o.get('error_replies', 0))
    if len(merged['hist'].get('error_reason_class', {})) < 8:
        out.append('only %d classes of refusal seen' % len(merged['hist'].get('error_reason_class', {})))
    return out


def precheck():
    from vlib.calibrate import calibrate
    return calibrate()
