"""C15 — the watcher directory stays coherent; names are unique ignoring case.

Engine SIM with a real configuration file (for reloadconfig).  An online reference dict
lower(name) -> present is updated from the replies; after every step, at quiescence, list /
status / stats / numwatchers must all describe that same set.
"""
import os
import shutil
import tempfile

from tornado import gen

from vlib import simhist
from vlib.common import CaseResult, rng_for

ID = 'C15'
LEVEL = 'exploration'
RULE = ('sequences of 3-12 steps over add (with/without start) / rm (with/without nostop) / start / stop / '
        'reloadconfig (file rewritten with a random subset of the pool) / status / list, names drawn from the pool '
        '{a, A, b, "B b", "", ü, a.b, *, Web1, "a ", " b", blanks, "Web1<TAB>"} and requests spelling existing names in random letter case. '
        'non-trivial = the directory changed at least once and the coherence oracle ran; distinct = sequence of '
        '(operation, name class, reply status)')
ASSUMPTIONS = ['start/stop by name use match=simple when the name contains glob characters (otherwise the documented '
               'glob matching would address several watchers)',
               'configuration files never define two names equal ignoring case (ambiguous)']
BUDGET = {'quick': 240, 'thorough': 1500}
POOL = ['a', 'A', 'b', 'B b', '', 'ü', 'a.b', '*', 'Web1', 'a ', ' b', '  ', 'Web1\t', 'load50%', '%s', 'x' * 300, 'strasse', 'straße']
FILE_POOL = ['a', 'A', 'b', 'B b', 'ü', 'a.b', 'Web1', 'strasse', 'straße']


def plan(tier, seed):
    n = 2500 if tier == 'quick' else 60000
    return ([{'seed': seed, 'idx': i} for i in range(n)] +
            [{'kind': 'live-nostop', 'seed': seed, 'idx': i} for i in range(2 if tier == 'quick' else 8)])


CASE_TIMEOUT = 120


def live_nostop(spec, res):
    """rm with nostop on a real circusd: the watcher disappears from every view, its workers -- which keep writing to
    the output the daemon captured for them -- are left alone"""
    import re
    import time
    from vlib import live
    rnd = rng_for(spec['seed'], 'C15-live', spec['idx'])
    streams = [('stdout_stream.class = FileStream\nstdout_stream.filename = @DIR@/chatty.out\n'
                'stderr_stream.class = FileStream\nstderr_stream.filename = @DIR@/chatty.err\n'),
               'stdout_stream.class = FileStream\nstdout_stream.filename = @DIR@/chatty.out\n',
               ''][spec['idx'] % 3]
    out = {'stdout': [[64, 40]] * 400, 'stderr': [[32, 55]] * 300}
    d = live.Daemon('', strace=False)
    txt = d.header(check_delay=0.4)
    txt += ('[watcher:Chatty]\ncmd = %s\nnumprocesses = 2\ngraceful_timeout = 0.5\ncopy_env = True\n%s\n'
            '[watcher:other]\ncmd = %s\nnumprocesses = 1\ngraceful_timeout = 0.5\ncopy_env = True\n\n'
            % (live.worker_cmd({'log': '@LOG@', 'tagw': 'chatty', 'out': out}), streams,
               live.worker_cmd({'log': '@LOG@', 'tagw': 'other'})))
    d.ini = txt.replace('@DIR@', d.dir).replace('@LOG@', d.logdir)
    with open(d.ini_path, 'w') as f:
        f.write(d.ini)
    try:
        d.start()
        if not d.wait_ready(20) or not d.workers_up(3, 20):
            res.inconclusive.append('live: daemon not ready: ' + d.output()[-200:])
            return
        time.sleep(0.5)
        pids = d.call('list', name='chatty').get('pids') or []
        stt = {p: live.proc_stat(p) for p in pids}
        r = d.call('rm', name=rnd.choice(['Chatty', 'CHATTY', 'chatty']), nostop=True, waiting=rnd.random() < .5)
        res.obs['live_rm_nostop_judged'] += 1
        if r.get('status') != 'ok' or len(pids) != 2:
            res.inconclusive.append('live: rm nostop answered %s, %d workers' % (str(r)[:80], len(pids)))
            return
        time.sleep(2.5)                       # six periodic checks, dozens of writes per worker
        views = (d.call('list').get('watchers'), d.call('numwatchers').get('numwatchers'),
                 sorted(d.call('status').get('statuses', {})))
        if views != (['other'], 1, ['other']):
            res.violation('C15/live:views-after-rm-nostop', 'after rm nostop: list %s numwatchers %s status %s' % views)
        gone = [p for p in pids if not live.alive(p, stt[p][2] if stt[p] else None) or (live.proc_stat(p) or (0, 'Z'))[1] == 'Z']
        failed = {p: open(os.path.join(d.logdir, '%d.writefail' % p)).read().split() for p in pids
                  if os.path.exists(os.path.join(d.logdir, '%d.writefail' % p))}
        if failed and not gone:
            res.violation('C15/live:rm-nostop-cut-the-workers-output',
                          'rm with nostop was answered ok; afterwards the writes of the workers it was to leave alone fail '
                          '(pid: channel, errno, record number) %s -- a program that does not expect EPIPE on its standard '
                          'output dies of it' % failed)
        if gone:
            res.violation('C15/live:rm-nostop-took-the-workers-down',
                          'rm with nostop was answered ok; 2.5 s later the workers %s of the removed watcher (which write to '
                          '%s) are gone or zombies' % (gone, 'captured output' if streams else 'the daemon\'s own output'))
        res.nontrivial(repr(('live-nostop', bool(streams), spec['idx'] % 3)))
        res.sample = res.sample or {'live': True, 'streams': bool(streams), 'workers_alive_after': len(pids) - len(gone)}
        for p in pids:
            try:
                os.kill(p, 9)
            except OSError:
                pass
    finally:
        d.cleanup()


def recase(rnd, name):
    return rnd.choice([name, name.upper(), name.lower(), name.swapcase(), name.capitalize()])


def gen_steps(rnd):
    steps = []
    for _ in range(rnd.randint(3, 12)):
        k = rnd.choice(['add', 'add', 'add', 'rm', 'rm', 'start', 'stop', 'reloadconfig', 'status', 'list'])
        name = rnd.choice(POOL)
        if k == 'add':
            start = rnd.random() < .5
            # an add that is asked to start the watcher at once, while process creation fails for every retry
            steps.append(['add', name, start] + ([True] if start and rnd.random() < .35 else []))
        elif k == 'rm':
            steps.append(['rm', recase(rnd, name), rnd.random() < .3])
        elif k in ('start', 'stop', 'status', 'list'):
            steps.append([k, recase(rnd, name)])
        else:
            names = rnd.sample(FILE_POOL, rnd.randint(0, 4))
            seen, keep = set(), []
            for n in names:
                if n.lower() not in seen:
                    seen.add(n.lower())
                    keep.append(n)
            steps.append(['reloadconfig', keep])
    return steps


def write_cfg(path, names):
    with open(path, 'w', encoding='utf8') as f:
        f.write('[circus]\ncheck_delay = -1\nendpoint = ipc:///sim/ctrl\npubsub_endpoint = ipc:///sim/pub\nwarmup_delay = 1\n\n')
        for n in names:
            f.write('[watcher:%s]\ncmd = %s\nnumprocesses = 1\ngraceful_timeout = 0.2\n\n' % (n, simhist.tag_of(n)))


def run_case(spec):
    res = CaseResult()
    if spec.get('kind') == 'live-nostop':
        live_nostop(spec, res)
        for v in res.viol:
            v['spec'] = spec
        return res
    rnd = rng_for(spec['seed'], 'C15', spec['idx'])
    if 'steps' in spec:
        h = spec
    else:
        init = []
        for n in rnd.sample(FILE_POOL, rnd.randint(0, 3)):
            if n.lower() not in [x.lower() for x in init]:
                init.append(n)
        h = {'init': init, 'steps': gen_steps(rnd), 'watchers': []}
    d = tempfile.mkdtemp(prefix='verif-c15-')
    w = simhist.new_world(h)
    nv = len(res.viol)
    try:
        w.run(lambda: _run(w, h, d, res))
        for v in res.viol[nv:]:
            v['spec'] = h
        if w.breach():
            res.inconclusive.append('containment breach')
    finally:
        w.close()
        shutil.rmtree(d, ignore_errors=True)
    return res


def views_agree(w, res, where, steps_done):
    """list / status / stats / numwatchers describe the same set *at any instant* (no reference involved)"""
    snap = w.snapshot(with_stats=False)
    lst = sorted(x.lower() for x in (snap['watchers'] or []))
    sts = sorted(x.lower() for x in (snap['statuses'] or {}))
    mid = w.req('stats')
    infos = (w.reply(mid) or {}).get('infos')
    stt = sorted(x.lower() for x in infos) if isinstance(infos, dict) else None
    nw = snap['numwatchers']
    res.obs['instant_view_checks'] += 1
    if not (lst == sts == stt and nw == len(lst)):
        res.violation('C15/views-disagree-mid-operation', '%s: list %s, status %s, stats %s, numwatchers %s'
                      % (where, lst, sts, stt, nw), steps=steps_done)


def coherent(w, ref, res, where, steps_done):
    snap = w.snapshot(with_stats=False)
    lst = snap['watchers']
    statuses = snap['statuses'] or {}
    nw = snap['numwatchers']
    mid = w.req('stats')
    infos = (w.reply(mid) or {}).get('infos')
    res.obs['coherence_checks'] += 1
    want = sorted(ref)
    views = {
        'list': sorted(x.lower() for x in (lst or [])),
        'status': sorted(x.lower() for x in statuses),
        'stats': sorted(x.lower() for x in (infos or {})) if isinstance(infos, dict) else None,
    }
    for vn, v in views.items():
        if v != want:
            res.violation('C15/%s-disagrees-with-reference' % vn,
                          '%s: %s shows %s, reference (from the replies) has %s' % (where, vn, v, want),
                          steps=steps_done)
    if nw != len(want):
        res.violation('C15/numwatchers-disagrees', '%s: numwatchers=%s, reference has %d' % (where, nw, len(want)),
                      steps=steps_done)
    for vn, raw in (('status', list(statuses)), ('stats', list(infos or {}) if isinstance(infos, dict) else [])):
        low = [x.lower() for x in raw]
        if len(low) != len(set(low)):
            res.violation('C15/names-not-unique-ignoring-case', '%s keys %s' % (vn, raw), steps=steps_done)


@gen.coroutine
def _run(w, h, d, res):
    k = w.kernel
    k.beh_for = lambda argv, n: {15: ('die', 0.1)}       # a stop takes 0.1 s: rm/stop have a window
    cfg = os.path.join(d, 'circus.ini')
    write_cfg(cfg, h['init'])
    arb = w.load_arbiter(cfg)
    yield arb.start()
    yield w.settle(30)
    ref = {n.lower(): n for n in h['init']}
    nostop_tags = set()
    changed = 0
    sig = []
    done = []
    coherent(w, ref, res, 'after boot', done)
    for st in h['steps']:
        if w.stalled is not None:
            break
        op = st[0]
        done.append(st)
        if op == 'add':
            name, start = st[1], st[2]
            props = {'name': name, 'cmd': simhist.tag_of(name) if name else 'w_empty',
                     'options': {'graceful_timeout': 0.2}}
            if start:
                props['start'] = True
            if len(st) > 3 and st[3]:
                k.spawn_fail = set(range(k.spawn_attempts + 1, k.spawn_attempts + 6))
                res.obs['adds_whose_start_cannot_spawn'] += 1
            existed = name.lower() in ref
            rep = yield w.call('add', **props)
            yield w.settle(30)
            k.spawn_fail = set()
            ok = isinstance(rep, dict) and rep.get('status') == 'ok'
            sig.append(('add', 'dup' if existed else ('empty' if not name else 'new'), ok))
            if ok and existed:
                res.violation('C15/duplicate-name-accepted', 'add %r answered ok although %r exists' % (name, ref[name.lower()]),
                              steps=done)
            if ok and not existed:
                # an add is reported ok only if the watcher now exists
                mid = w.req('list')
                lst = (w.reply(mid) or {}).get('watchers') or []
                if name.lower() not in [x.lower() for x in lst]:
                    res.violation('C15/add-ok-but-absent[%s]' % ('empty-name' if not name else 'named'),
                                  'add %r answered ok but list shows %s' % (name, lst), steps=done)
                else:
                    ref[name.lower()] = name
                    changed += 1
            if not ok and not existed and name:
                res.violation('C15/add-refused-for-free-name', 'add %r refused: %s' % (name, str(rep)[:150]), steps=done)
        elif op == 'rm':
            _, name, nostop = st
            existed = name.lower() in ref
            tag = simhist.tag_of(ref[name.lower()]) if existed else None
            props = {'name': name, 'waiting': True}
            if nostop:
                props['nostop'] = True
            if len(done) % 3 == 0:
                # not waiting: look at the directory while the removal is still stopping the workers
                props['waiting'] = False
                mid = w.req('rm', **props)
                views_agree(w, res, 'right after non-waiting rm %r' % name, list(done))
                yield w.advance(0.03)
                views_agree(w, res, '30 ms into rm %r' % name, list(done))
                yield w.settle(60)
                rep = w.reply(mid)
            else:
                rep = yield w.call('rm', **props)
            yield w.settle(60)
            ok = isinstance(rep, dict) and rep.get('status') == 'ok'
            sig.append(('rm', existed, ok))
            if existed and not ok:
                res.violation('C15/other-case-not-found:rm', 'rm %r (watcher %r exists) answered %s'
                              % (name, ref[name.lower()], str(rep)[:150]), steps=done)
            if ok and existed:
                del ref[name.lower()]
                changed += 1
                if nostop:
                    nostop_tags.add(tag)
                else:
                    yield w.advance(0.05)
                    alive = [p for p in k.live(tag)]
                    if alive and tag not in nostop_tags:
                        res.violation('C15/removed-watcher-workers-alive', 'rm %r done but workers %s alive' % (name, alive),
                                      steps=done)
                # the name can be reused
                res.obs['removals'] += 1
            if ok and not existed:
                res.violation('C15/rm-of-absent-ok', 'rm %r answered ok but no such watcher in the reference' % name,
                              steps=done)
        elif op in ('start', 'stop', 'status', 'list'):
            _, name = st
            existed = name.lower() in ref
            props = {'name': name}
            if op in ('start', 'stop'):
                props['waiting'] = True
                if any(c in name for c in '*?[]'):
                    props['match'] = 'simple'
                elif name and existed:
                    props['match'] = ('simple', 'glob', 'regex')[len(done) % 3]
                    if props['match'] == 'regex':
                        import re as _re
                        if _re.escape(name) != name:
                            props['match'] = 'glob'      # only names that are their own regular expression
                        else:
                            props['name'] = name + '$'
                            res.obs['regex_addressed_requests'] += 1
            rep = yield w.call(op, **props)
            yield w.settle(60)
            st_ = rep.get('status') if isinstance(rep, dict) else None
            found = st_ is not None and not (st_ == 'error' and 'not found' in str(rep.get('reason')))
            sig.append((op, existed, st_ if st_ in ('ok', 'error') else 'named-status'))
            if existed and not found and name:
                res.violation('C15/other-case-not-found:' + op, '%s %r (watcher %r exists) answered %s'
                              % (op, name, ref[name.lower()], str(rep)[:150]), steps=done)
            if not existed and found and st_ != 'error' and props.get('match', 'simple') == 'simple' and name:
                res.violation('C15/absent-watcher-found:' + op, '%s %r answered %s but the reference has no such watcher'
                              % (op, name, str(rep)[:150]), steps=done)
        elif op == 'reloadconfig':
            write_cfg(cfg, st[1])
            if len(done) % 2 == 0:
                # not waiting: look at the directory while watchers are being brought up one global warmup apart
                mid = w.req('reloadconfig')
                for dt in (0.03, 0.5, 1.2):
                    yield w.advance(dt)
                    views_agree(w, res, '%.2f s into reloadconfig %r' % (dt, st[1]), list(done))
                yield w.settle(120)
                # the immediate "ok" only says accepted; whether the file was applied is what the same request,
                # sent again with waiting, answers (reloading an unchanged file is a no-op)
                rep = yield w.call('reloadconfig', waiting=True)
            else:
                rep = yield w.call('reloadconfig', waiting=True)
            yield w.settle(120)
            ok = isinstance(rep, dict) and rep.get('status') == 'ok'
            sig.append(('reloadconfig', len(st[1]), ok))
            if ok:
                ref = {n.lower(): n for n in st[1]}
                changed += 1
            else:
                res.obs['reloadconfig_not_ok'] += 1
                res.hist['reloadconfig_errors'][str(rep.get('reason') if isinstance(rep, dict) else rep)[:60]] += 1
                # resynchronise with what the daemon says and keep judging coherence between its own views
                mid = w.req('list')
                ref = {x.lower(): x for x in ((w.reply(mid) or {}).get('watchers') or [])}
        if w.stalled is not None:
            break
        coherent(w, ref, res, 'after %s' % st, list(done))
    if w.stalled is not None:
        res.obs['stalled(C05 owns)'] += 1
    if changed:
        res.nontrivial(repr(sig))
        if res.sample is None:
            res.sample = {'initial_file': h['init'], 'steps': h['steps'], 'final_reference': sorted(ref.values())}
    res.obs['sequences'] += 1
    res.obs['directory_changes'] += changed


def starved(merged, tier):
    o = merged['obs']
    out = []
    if o.get('coherence_checks', 0) < 5000:
        out.append('only %d coherence checks' % o.get('coherence_checks', 0))
    if o.get('removals', 0) < 200:
        out.append('only %d removals' % o.get('removals', 0))
    return out


def precheck():
    from vlib.calibrate import calibrate
    return calibrate()
