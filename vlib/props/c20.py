"""C20 — log files rotate by size without losing or reordering retained data.

Engine REF: the real circus.stream.file_stream.FileStream in a scratch directory, checked after
every write against a few lines of model: the concatenation of the backups (oldest = highest index
first) and the active file must be a suffix of everything that was ever in the files or written.
"""
import itertools
import os
import re
import shutil
import tempfile

from vlib.common import CaseResult, rng_for

ID = 'C20'
LEVEL = 'exploration'
RULE = ('exhaustive for small bounds: max_bytes 1..8 x backup_count 1..3 x every sequence of write sizes 0..7 of '
        'length 4 (quick) / 5 (thorough), checked after every write (so every prefix is covered); random beyond: '
        'max_bytes <= 4096, backup_count <= 5, up to 200 writes with sizes around max_bytes, pre-existing active '
        'file and pre-existing backups (with gaps), time_format on/off, close/reopen between writes, multi-line and '
        'non-ASCII payloads, no-rotation streams, and fault sequences where the operating system refuses to extend '
        'the file during chosen writes (EFBIG via RLIMIT_FSIZE; a refused chunk may be kept in part, never twice). non-trivial = at least one rollover happened or a '
        'close/reopen or time_format was exercised; distinct = (parameters, write-size sequence)')
ASSUMPTIONS = ['the size bound is judged on ASCII payloads without time_format (bytes = characters; the statement '
               'does not say which it means, and the prefix is not part of the write the caller made)',
               'TimedRotatingFileStream and WatchedFileStream are not in the statement']
EXHAUSTIVE = {'quick': 'max_bytes 1..8 x backup_count 1..3 x write sizes 0..7 x length 4',
              'thorough': 'max_bytes 1..8 x backup_count 1..3 x write sizes 0..7 x length 5'}
BUDGET = {'quick': 240, 'thorough': 1500}
_DIR = [None]


def scratch():
    if _DIR[0] is None:
        base = '/dev/shm' if os.path.isdir('/dev/shm') and os.access('/dev/shm', os.W_OK) else None
        _DIR[0] = tempfile.mkdtemp(prefix='verif-c20-', dir=base)
        import atexit
        atexit.register(shutil.rmtree, _DIR[0], True)
    for f in os.listdir(_DIR[0]):
        os.unlink(os.path.join(_DIR[0], f))
    return _DIR[0]


def plan(tier, seed):
    out = []
    L = 4 if tier == 'quick' else 5
    for mb in range(1, 9):
        for bc in (1, 2, 3):
            for first in range(8):
                out.append({'kind': 'exh', 'mb': mb, 'bc': bc, 'first': first, 'L': L})
    n = 1500 if tier == 'quick' else 40000
    out += [{'kind': 'rnd', 'seed': seed, 'idx': i} for i in range(n)]
    out += [{'kind': 'fault', 'seed': seed, 'idx': i} for i in range(n // 5)]
    return out


def payload(k, n, newline=False, uni=False):
    """n characters identifying write k"""
    if n == 0:
        return ''
    tag = ('%d' % k)
    s = (tag + ':' + 'abcdefghijklmnopqrstuvwxyz'[k % 26] * n)[:n] if n > len(tag) + 1 else 'abcdefghijklmnopqrstuvwxyz'[k % 26] * n
    if uni and n > 2:
        s = s[:-1] + 'é'
    # newline: 1 = trailing only, 2 = trailing + one interior, 3 = one interior only (the chunk ends inside a
    # line, as a pipe read does), 4 = leading newline
    if newline and n > 1:
        mode = newline if isinstance(newline, int) and not isinstance(newline, bool) else 2
        if mode in (1, 2):
            s = s[:-1] + '\n'
        if mode in (2, 3) and n > 4:
            s = s[:n // 2] + '\n' + s[n // 2 + 1:]
        if mode == 4:
            s = '\n' + s[1:]
    return s


def files_state(path, bc_max=12):
    backs = {}
    d = os.path.dirname(path)
    base = os.path.basename(path)
    for f in os.listdir(d):
        if f.startswith(base + '.'):
            suf = f[len(base) + 1:]
            backs[suf] = open(os.path.join(d, f), encoding='utf8', errors='replace').read()
    active = open(path, encoding='utf8', errors='replace').read() if os.path.exists(path) else ''
    return backs, active


def check_state(res, path, hist, mb, bc, judged_size, ctx, written_sizes):
    backs, active = files_state(path)
    bad_idx = [s for s in backs if not s.isdigit() or not (1 <= int(s) <= max(bc, 0))]
    if bad_idx:
        res.violation('C20/backup-index-out-of-range', 'backup suffixes %s with backup_count=%d (%s)' % (sorted(backs), bc, ctx))
        return
    if len(backs) > bc:
        res.violation('C20/too-many-backups', '%d backups with backup_count=%d (%s)' % (len(backs), bc, ctx))
    cat = ''.join(backs[s] for s in sorted(backs, key=int, reverse=True)) + active
    if not hist.endswith(cat):
        res.violation('C20/retained-data-not-a-contiguous-tail',
                      'backups(oldest first)+active = %r is not a suffix of everything written %r (%s)'
                      % (cat[-80:], hist[-120:], ctx))
    if judged_size and mb > 0 and bc > 0 and all(x < mb for x in written_sizes):
        if len(active.encode('utf8')) >= mb:
            res.violation('C20/active-file-reached-max_bytes', 'active file has %d bytes, max_bytes=%d, write sizes %s (%s)'
                          % (len(active.encode('utf8')), mb, written_sizes, ctx))
    return len(backs)


def suffix_with_faults(cat, chunks):
    """is `cat` a suffix of the concatenation of `chunks` [(text, faulted)], where a chunk whose write was refused
    by the operating system may be retained as any prefix of itself (nothing, a part, all of it) but never twice?"""
    import functools

    @functools.lru_cache(maxsize=None)
    def m(end, i):
        # cat[:end] still to be explained by chunks[:i+1], matching backwards
        if end == 0:
            return True
        if i < 0:
            return False
        text, faulted = chunks[i]
        if not faulted:
            n = len(text)
            if n >= end:
                return text.endswith(cat[:end])
            return cat[end - n:end] == text and m(end - n, i - 1)
        for k in range(len(text), -1, -1):
            pre = text[:k]
            if k >= end:
                if pre.endswith(cat[:end]):
                    return True
                continue
            if cat[end - k:end] == pre and m(end - k, i - 1):
                return True
        return False
    return m(len(cat), len(chunks) - 1)


class _FaultyOs:
    """stand-in for `os` inside circus.stream.file_stream: one chosen call fails once (a source-free failpoint)"""

    def __init__(self):
        self.arm = None         # name of the function whose next call raises

    def _maybe(self, name):
        if self.arm == name:
            self.arm = None
            raise OSError(5, 'Input/output error (injected into os.%s)' % name)

    def rename(self, *a, **k):
        self._maybe('rename')
        return os.rename(*a, **k)

    def remove(self, *a, **k):
        self._maybe('remove')
        return os.remove(*a, **k)

    def __getattr__(self, n):
        return getattr(os, n)


def run_fault_seq(res, mb, bc, sizes, fault_at, slack, ctx='', kind='efbig'):
    """writes with the operating system refusing to extend the file (EFBIG through RLIMIT_FSIZE, the same errno
    family as a full disk) during the writes listed in fault_at; the refusal is lifted right after the call"""
    import resource
    from circus.stream.file_stream import FileStream
    import circus.stream.file_stream as fsmod
    d = scratch()
    path = os.path.join(d, 'out.log')
    st = FileStream(filename=path, max_bytes=mb, backup_count=bc)
    soft, hard = resource.getrlimit(resource.RLIMIT_FSIZE)
    faulty = _FaultyOs()
    real_os = fsmod.os
    if kind != 'efbig':
        fsmod.os = faulty
    chunks = []
    refused = 0
    try:
        for k, n in enumerate(sizes):
            data = payload(k, n)
            if k in fault_at and kind != 'efbig':
                # the next os.rename / os.remove made by the stream (inside a rollover) fails once
                faulty.arm = kind
                try:
                    st({'data': data, 'pid': 4242})
                    chunks.append((data, False))
                except OSError:
                    chunks.append((data, True))
                    refused += 1
                faulty.arm = None
            elif k in fault_at:
                cur = os.path.getsize(path) if os.path.exists(path) else 0
                resource.setrlimit(resource.RLIMIT_FSIZE, (cur + slack, hard))
                try:
                    st({'data': data, 'pid': 4242})
                    chunks.append((data, False))
                except OSError:
                    chunks.append((data, True))
                    refused += 1
                finally:
                    resource.setrlimit(resource.RLIMIT_FSIZE, (soft, hard))
                if st._file is None or st._file.closed:
                    st._file = st._open()        # the refusal hit the rollover itself: what a caller's retry would do
            else:
                try:
                    st({'data': data, 'pid': 4242})
                except Exception as e:      # noqa
                    res.violation('C20/write-raised-after-a-transient-fault:%s' % type(e).__name__,
                                  'write %d raised %r although the fault (%s at writes %s) was over (%s)'
                                  % (k, e, kind, sorted(fault_at), ctx))
                    break
                chunks.append((data, False))
            res.obs['writes'] += 1
            backs, active = files_state(path)
            if [s for s in backs if not s.isdigit() or not (1 <= int(s) <= max(bc, 0))] or len(backs) > bc:
                res.violation('C20/too-many-backups', 'backups %s with backup_count=%d (%s)' % (sorted(backs), bc, ctx))
            cat = ''.join(backs[s] for s in sorted(backs, key=int, reverse=True)) + active
            if not suffix_with_faults(cat, tuple(chunks)):
                res.violation('C20/retained-data-not-a-contiguous-tail[after-refused-write]',
                              'backups(oldest first)+active = %r is not an unduplicated tail of the writes %r (refused ones '
                              'marked True may be kept in part) (%s k=%d)' % (cat[-100:], chunks[-6:], ctx, k))
                break
    finally:
        fsmod.os = real_os
        resource.setrlimit(resource.RLIMIT_FSIZE, (soft, hard))
        try:
            st.close()
        except Exception:
            pass
    res.obs['writes_refused_by_os'] += refused
    return refused


def run_seq(res, mb, bc, sizes, pre_active='', pre_backs=None, time_format=None, reopen_at=(), newline=False,
            uni=False, ctx='', fname='out.log', as_bytes=False):
    from circus.stream.file_stream import FileStream
    d = scratch()
    path = os.path.join(d, fname)
    hist = ''
    pre_backs = pre_backs or {}
    for idx in sorted(pre_backs, reverse=True):
        with open('%s.%d' % (path, idx), 'w') as f:
            f.write(pre_backs[idx])
        hist += pre_backs[idx]
    if pre_active:
        with open(path, 'w') as f:
            f.write(pre_active)
        hist += pre_active
    st = FileStream(filename=path, max_bytes=mb, backup_count=bc, time_format=time_format)
    rolled = 0
    nback = len(pre_backs)
    written = []
    try:
        for k, n in enumerate(sizes):
            if k in reopen_at:
                st.close()
                st.open()
                res.obs['close_reopen'] += 1
            data = payload(k, n, newline, uni)
            before_active = os.path.getsize(path) if os.path.exists(path) else 0
            try:
                # the redirector hands over what it read from the pipe: bytes
                # one stream serves all the workers of a watcher: consecutive chunks come from different pids
                wpid = 4242 if time_format is None else [4242, 77, 4242, 31999, 77][k % 5]
                st({'data': data.encode('utf8') if as_bytes else data, 'pid': wpid})
            except Exception as e:      # noqa
                res.violation('C20/write-raised:%s' % type(e).__name__, 'writing %d characters to %r raised %r (%s)'
                              % (len(data), os.path.basename(path), e, ctx))
                break
            res.obs['writes'] += 1
            if time_format is None:
                hist += data
            else:
                from datetime import datetime
                prefix = '%s [%d] | ' % (datetime.now().strftime(time_format), wpid)
                hist += prefix + data.rstrip('\n').replace('\n', '\n' + prefix) + '\n'
            written.append(len(data.encode('utf8')))
            if time_format is None:
                nb = check_state(res, path, hist, mb, bc, judged_size=(not uni) or as_bytes, ctx='%s sizes=%s k=%d' % (ctx, list(sizes), k),
                                 written_sizes=written)
                after_active = os.path.getsize(path)
                if mb > 0 and bc > 0 and after_active < before_active + len(data.encode('utf8')):
                    rolled += 1
            else:
                check_state(res, path, hist, mb, bc, judged_size=False, ctx='%s time_format sizes=%s k=%d' % (ctx, list(sizes)[:20], k),
                            written_sizes=written)
                backs, active = files_state(path)
                for fn, text in list(backs.items()) + [('active', active)]:
                    for line in text.split('\n'):
                        if line == '':
                            continue
                        res.obs['prefixed_lines_checked'] += 1
                        if not re.match(r'^\d{4}-\d\d \[(4242|77|31999)\] \| ', line):
                            if fn == 'active' and pre_active and text.startswith(pre_active) and line in pre_active:
                                continue
                            if any(line in v for v in pre_backs.values()):
                                continue
                            res.violation('C20/line-without-prefix', 'line %r in %s lacks the "<time> [<pid>] | " prefix (%s)'
                                          % (line[:60], fn, ctx))
                bad_idx = [s for s in backs if not s.isdigit() or not (1 <= int(s) <= bc)]
                if bad_idx or len(backs) > bc:
                    res.violation('C20/too-many-backups', 'backups %s with backup_count=%d (%s)' % (sorted(backs), bc, ctx))
    finally:
        try:
            st.close()
        except Exception:
            pass
    res.obs['rollovers'] += rolled
    return rolled


def run_case(spec):
    res = CaseResult()
    if spec['kind'] == 'exh':
        mb, bc, L = spec['mb'], spec['bc'], spec['L']
        for rest in itertools.product(range(8), repeat=L - 1):
            sizes = (spec['first'],) + rest
            r = run_seq(res, mb, bc, sizes, ctx='max_bytes=%d backup_count=%d' % (mb, bc))
            res.obs['sequences'] += 1
            if r:
                res.nontrivial(repr((mb, bc, sizes)))
        res.sample = {'max_bytes': mb, 'backup_count': bc, 'first_write_size': spec['first'],
                      'enumerated': 'all %d continuations of length %d over sizes 0..7' % (8 ** (L - 1), L - 1)}
        return res
    if spec['kind'] == 'concrete':
        run_seq(res, **spec['args'])
        return res
    if spec['kind'] == 'concrete-fault':
        a = dict(spec['args'])
        a['fault_at'] = set(a['fault_at'])
        run_fault_seq(res, **a)
        return res
    if spec['kind'] == 'fault':
        rnd = rng_for(spec['seed'], 'C20f', spec['idx'])
        mb = rnd.choice([0, 0, 16, 64, 100, 1000])
        bc = rnd.randint(1, 3) if mb else 0
        nw = rnd.randint(3, 30)
        base = [1, 2, 3, 5, 9, 17, 40] + ([mb // 2, mb - 1] if mb else []) + ([9000] if rnd.random() < 0.1 else [])
        kind = rnd.choice(['efbig', 'efbig', 'rename', 'remove']) if mb else 'efbig'
        args = dict(mb=mb, bc=bc, sizes=[max(1, rnd.choice(base)) for _ in range(nw)],
                    fault_at=sorted(rnd.sample(range(nw), rnd.randint(1, 3))), slack=rnd.choice([0, 0, 1, 2, 7]),
                    ctx='fault(%s) max_bytes=%d backup_count=%d' % (kind, mb, bc), kind=kind)
        nv = len(res.viol)
        a = dict(args)
        a['fault_at'] = set(a['fault_at'])
        r = run_fault_seq(res, **a)
        for v in res.viol[nv:]:
            v['spec'] = {'kind': 'concrete-fault', 'args': args}
        res.obs['sequences'] += 1
        res.obs['mode:fault'] += 1
        if r:
            res.nontrivial(repr(('fault', mb, bc, args['sizes'], args['fault_at'], args['slack'])))
        res.sample = {'mode': 'fault', 'max_bytes': mb, 'backup_count': bc, 'write_sizes': args['sizes'][:20],
                      'refused_writes_at': args['fault_at'], 'writes_refused': r}
        return res
    rnd = rng_for(spec['seed'], 'C20', spec['idx'])
    mode = rnd.choice(['rot', 'rot', 'rot', 'pre', 'pre', 'time', 'norot', 'reopen', 'uni'])
    mb = rnd.choice([1, 2, 7, 16, 64, 100, 1000, 4096])
    bc = rnd.randint(1, 5) if rnd.random() < .85 else rnd.choice([9, 10, 11, 12, 25])
    nw = rnd.randint(1, 200 if mb >= 64 else 40)
    if bc > 8:
        nw = max(nw, 3 * bc)            # enough rollovers to fill every backup slot
    base = [0, 1, 2, mb // 2, mb - 2, mb - 1, mb, mb + 1, 2 * mb + 3, 3]
    args = dict(mb=mb, bc=bc, sizes=[max(0, rnd.choice(base)) for _ in range(nw)], ctx=mode)
    if mode in ('pre',):
        args['pre_active'] = 'P' * rnd.choice([0, 1, mb - 1, mb, mb + 5, 3 * mb])
        idxs = rnd.sample(range(1, bc + 1), rnd.randint(0, bc))
        args['pre_backs'] = {i: 'B%d' % i * rnd.randint(1, 4) for i in idxs}
    if mode == 'time':
        args['time_format'] = '%Y-%m'
        args['newline'] = rnd.choice([0, 1, 2, 3, 3, 4])
    if mode == 'norot':
        args['mb'] = 0
        args['bc'] = rnd.choice([0, 0, 3])
        args['reopen_at'] = tuple(rnd.sample(range(nw), min(nw, rnd.randint(0, 4))))
    if mode == 'reopen':
        args['reopen_at'] = tuple(rnd.sample(range(nw), min(nw, rnd.randint(1, 6))))
    if mode == 'uni':
        args['uni'] = True
        # half of them as the bytes a pipe delivers: then "size" is unambiguous (bytes) and is judged
        args['as_bytes'] = rnd.random() < .5
    if rnd.random() < .1:
        # file names that are legal and look like format strings
        args['fname'] = rnd.choice(['app-%Y%m%d.log', 'cpu100%.log', '%s.log', 'cpu%%.log', 'a b.log', 'ü.log', '%d'])
    nv = len(res.viol)
    r = run_seq(res, **args)
    for v in res.viol[nv:]:
        v['spec'] = {'kind': 'concrete', 'args': {k: (list(v_) if isinstance(v_, tuple) else v_) for k, v_ in args.items()}}
    res.obs['sequences'] += 1
    res.obs['mode:' + mode] += 1
    if r or mode in ('time', 'norot', 'reopen'):
        res.nontrivial(repr((mode, args['mb'], args['bc'], args['sizes'][:30], args.get('reopen_at'))))
    res.sample = {'mode': mode, 'max_bytes': args['mb'], 'backup_count': args['bc'], 'write_sizes': args['sizes'][:20],
                  'rollovers': r}
    return res


def starved(merged, tier):
    o = merged['obs']
    out = []
    if o.get('rollovers', 0) < 10000:
        out.append('only %d rollovers observed' % o.get('rollovers', 0))
    if o.get('prefixed_lines_checked', 0) < 1000:
        out.append('only %d prefixed lines checked' % o.get('prefixed_lines_checked', 0))
    if o.get('writes_refused_by_os', 0) < 100:
        out.append('only %d writes refused by the operating system' % o.get('writes_refused_by_os', 0))
    if o.get('close_reopen', 0) < 100:
        out.append('only %d close/reopen' % o.get('close_reopen', 0))
    return out
