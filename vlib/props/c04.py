"""C04 — process accounting is exact: no leaked, untracked or phantom worker.

Engine SIM, fault enumeration.  At every quiescent point (nothing in flight, one periodic check
completed, no fault pending) the protocol's view (list / numprocesses / stats / status) must equal
the simulated kernel's process table for every watcher; every child ever spawned is either
reported under exactly one watcher or `gone`; no zombie; no transient status.
"""
import os

from tornado import gen

from vlib import simgen, simhist
from vlib.common import CaseResult, rng_for

ID = 'C04'
LEVEL = 'fault_enumeration'
RULE = ('random histories over 1-3 watchers (incr/decr/set/restart/reload x3/stop/start/kill/signal/external '
        'kill/self exit/check/advance) with scripted hook outcomes on some watchers (true/false/raise x ignore '
        'flag for before_start, before_spawn, after_spawn, after_start, before_stop, after_stop), exec failures of '
        'chosen spawn attempts (so that both retry-succeeds and max_retry-exhausted occur) and quiescent points '
        'placed at random; for a systematic subset a death (exit 0 / exit 3 / SIGKILL) is injected at every '
        'kernel-call boundary of the last operation. non-trivial = the accounting oracle compared >=1 process '
        'after the kernel ledger changed; distinct = canonical kernel trace')
ASSUMPTIONS = ['simulated kernel calibrated against real psutil/subprocess',
               'agreement is demanded only at quiescent points (after one periodic check), never in between',
               'histories that stall the loop are truncated there and left to C05']
BUDGET = {'quick': 240, 'thorough': 1500}
CASE_TIMEOUT = 180          # a LIVE history (real daemon, real grace periods) takes 20-60 s of wall clock
CAP = 60

KINDS = ['incr', 'decr', 'setnp', 'restart', 'reload', 'reloadseq', 'reloadterm', 'stop', 'start', 'kill', 'signal',
         'extkill', 'selfexit', 'sigexit', 'check', 'advance', 'dieat', 'dieat', 'status', 'qpoint']
HOOKS = ['before_start', 'before_spawn', 'after_spawn', 'after_start', 'before_stop', 'after_stop',
         # a veto on signals withholds the stop signal, never the final SIGKILL: whoever is dropped from the books is dead
         'before_signal', 'after_signal']


def gen_spec(rnd):
    nw = rnd.choice([1, 1, 2, 2, 3])
    ws = []
    for i in range(nw):
        w = simgen.gen_watcher(rnd, 'abc'[i])
        if rnd.random() < .25:
            hk = {}
            for hname in rnd.sample(HOOKS, rnd.randint(1, 2)):
                hk[hname] = [rnd.choice(['true', 'false', 'raise']), rnd.random() < .4]
            w['hooks'] = hk
        if rnd.random() < .15:
            w['max_retry'] = rnd.choice([1, 2, 5])
        if rnd.random() < .1:
            w['autostart'] = False
        if rnd.random() < .15:
            # captured output, in the documented combinations with close_child_std*
            w['capture'] = rnd.choice([True, 'both'])
            for opt in ('close_child_stdout', 'close_child_stderr', 'close_child_stdin'):
                if rnd.random() < .35:
                    w[opt] = rnd.random() < .7
        ws.append(w)
    names = [w['name'] for w in ws]
    steps = []
    for _ in range(rnd.randint(1, 9)):
        k = rnd.choice(KINDS)
        if k == 'qpoint':
            steps.append(['qpoint'])
        else:
            steps.append(simgen.gen_step(rnd, names, [k]))
        if rnd.random() < .4:
            steps.append(['adv', rnd.choice([0, .05, .3])])
    if len(names) >= 2 and rnd.random() < .1:
        # the set of watchers changes at run time (one removed, one added and started); the newcomer is accounted
        # for like any other: a death is noticed and repaired by the next periodic check
        steps += [['call', 'rm', {'name': names[-1], 'waiting': True}],
                  ['call', 'add', {'name': 'new', 'cmd': simhist.tag_of('new'), 'start': True, 'waiting': True,
                                   'options': {'numprocesses': 2, 'graceful_timeout': 0.2}}],
                  ['settle', 60], ['extkill', 'new', rnd.randint(0, 1), 9], ['qpoint']]
    fail = []
    if rnd.random() < .3:
        base = rnd.randint(1, 12)
        fail = list(range(base, base + rnd.choice([1, 2, 5, 7])))
    return {'kill_latency': rnd.choice([0.0, 0.0, 0.0005, 0.002]), 'watchers': ws, 'steps': steps,
            'spawn_fail': fail, 'no_path': rnd.random() < .06}


def plan(tier, seed):
    n = 5000 if tier == 'quick' else 100000
    nb = 120 if tier == 'quick' else 2500
    return ([{'kind': 'random', 'seed': seed, 'idx': i} for i in range(n)] +
            [{'kind': 'sweep', 'seed': seed, 'idx': i} for i in range(nb)] +
            [{'kind': 'live', 'seed': seed, 'idx': i} for i in range(3 if tier == 'quick' else 30)])


def live_case(spec, res):
    """the same oracle with /proc as the process table: a real circusd, real workers"""
    from vlib import livehist
    rnd = rng_for(spec['seed'], 'C04-live', spec['idx'])
    ls = livehist.gen_spec(rnd, nsteps=5)
    rec = livehist.run(ls)
    if rec['problem']:
        res.inconclusive.append('live: ' + rec['problem'][:200])
        return
    livehist.judge_accounting(rec, res)
    res.obs['live_daemons'] += 1
    res.nontrivial(repr(('live', [(w['kind'], w['np']) for w in ls['watchers']], ls['steps'])))
    res.sample = {'live': True, 'watchers': ls['watchers'], 'steps': ls['steps'], 'quiescent_points': len(rec['points']),
                  'events': len(rec['events'])}


def run_case(spec):
    res = CaseResult()
    if spec.get('kind') == 'live':
        live_case(spec, res)
        for v in res.viol:
            v['spec'] = spec
        return res
    if 'steps' in spec:
        run_history(spec, res)
        return res
    rnd = rng_for(spec['seed'], 'C04', spec['kind'], spec['idx'])
    h = gen_spec(rnd)
    if spec['kind'] == 'random':
        run_history(h, res)
        return res
    op = rnd.choice([['req', 'incr', {'name': 'a', 'nb': 1}], ['req', 'decr', {'name': 'a', 'nb': 1}],
                     ['req', 'reload', {'name': 'a'}], ['req', 'reload', {'name': 'a', 'sequential': True}],
                     ['req', 'restart', {'name': 'a'}], ['check'], ['req', 'stop', {'name': 'a'}],
                     ['req', 'start', {'name': 'a'}],
                     ['req', 'set', {'name': 'a', 'options': {'numprocesses': rnd.choice([0, 1, 3])}}]])
    status = rnd.choice([9, 0, 768])
    h['steps'] = [s for s in h['steps'] if s[0] not in ('inject_death', 'qpoint')][:4]
    base = dict(h)
    base['steps'] = h['steps'] + [['mark'], op]
    n = run_history(base, res, dry=True)
    res.obs['sweep_bases'] += 1
    res.hist['boundaries_of_last_op'][min(n, CAP)] += 1
    for b in range(1, min(n, CAP) + 1):
        hh = dict(h)
        hh['steps'] = h['steps'] + [['inject_death', b, 'a', b, status, 'ext' if status == 9 else 'self'], op]
        run_history(hh, res)
        res.obs['boundaries_injected'] += 1
    return res


def run_history(h, res, dry=False):
    w = simhist.new_world(h)
    out = {'n': 0}
    nv = len(res.viol)
    saved_path = os.environ.get('PATH')
    if h.get('no_path'):
        # a daemon started with a stripped environment (env -i circusd ...)
        os.environ.pop('PATH', None)
        res.obs['histories_with_PATH_unset'] += 1
    try:
        w.run(lambda: _history(w, h, res, dry, out))
        for v in res.viol[nv:]:
            v['spec'] = h
        if w.breach():
            res.inconclusive.append('containment breach')
    finally:
        w.close()
        if saved_path is not None:
            os.environ['PATH'] = saved_path
    return out['n']


@gen.coroutine
def quiesce(w):
    """-> True when a quiescent point has been reached"""
    k = w.kernel
    t = yield w.settle(200.0)
    if t is None or w.stalled is not None:
        return False
    k.inject.clear()
    w.sel.hooks.clear()
    # no fault pending: let deaths already scheduled by earlier signals happen before the check
    for _ in range(5):
        pend = [p.death_at for p in k.procs.values() if p.state == 'running' and p.death_at is not None]
        if not pend:
            break
        yield w.advance(max(0.0, max(pend) - w.clock.now) + 0.01)
        t = yield w.settle(200.0)
        if t is None or w.stalled is not None:
            return False
    yield w.advance(1.0)
    ok = yield w.check()
    t = yield w.settle(200.0)
    if t is None or w.stalled is not None or ok is None:
        return False
    return True


def account(w, h, res, steps_so_far):
    """the accounting oracle at a quiescent point"""
    k = w.kernel
    k._settle()
    snap = w.snapshot()
    names = snap['watchers'] or []
    reported = {}
    compared = 0
    for n in names:
        d = snap['per'][n]
        tag = simhist.tag_of(n)
        live = k.live(tag)
        pids = d['pids']
        compared += len(live) + len(pids or [])
        if pids is None or sorted(pids) != live:
            phantom = sorted(set(pids or []) - set(live))
            missing = sorted(set(live) - set(pids or []))
            st = d['status']
            if missing:
                why = 'status=%s' % st
                failed = {e[4].get('pid') for e in w.hook_log if e[2] == 'after_spawn' and e[3] != 'true'}
                if set(missing) <= failed:
                    why = 'after_spawn-failed,worker-ignores-stop-signal'
                res.violation('C04/untracked-live-worker[%s]' % why,
                              'watcher %s: live kernel children %s are not listed (list says %s, status %s)'
                              % (n, missing, pids, st), steps=steps_so_far)
            if phantom:
                res.violation('C04/phantom-listed[%s]' % ','.join(sorted({k.procs[p].state for p in phantom})),
                              'watcher %s lists %s which are %s in the kernel' % (n, phantom,
                                                                                  [k.procs[p].state for p in phantom]),
                              steps=steps_so_far)
        if pids is not None and d['numprocesses'] != len(pids):
            res.violation('C04/numprocesses-vs-list', 'watcher %s: numprocesses reports %s but list has %s'
                          % (n, d['numprocesses'], pids), steps=steps_so_far)
        st = d['stats']
        if isinstance(st, list) and pids is not None:
            spids = sorted(int(x) for x in st)
            if spids != sorted(pids):
                res.violation('C04/stats-vs-list', 'watcher %s: stats keys %s, list %s' % (n, spids, pids),
                              steps=steps_so_far)
        if d['status'] in ('starting', 'stopping'):
            res.violation('C04/transient-status:' + str(d['status']), 'watcher %s reports %s at a quiescent point'
                          % (n, d['status']), steps=steps_so_far)
        if d['status'] == 'stopped' and (pids or d['numprocesses']):
            res.violation('C04/stopped-with-processes', 'watcher %s reports stopped with pids %s' % (n, pids))
        for p in pids or []:
            if p in reported:
                res.violation('C04/pid-under-two-watchers', 'pid %d listed under %s and %s' % (p, reported[p], n))
            reported[p] = n
    zs = k.zombies()
    if zs:
        res.violation('C04/zombie-after-check', 'zombie children %s outlived a periodic check'
                      % [(z, k.procs[z].tag, k.procs[z].reaped_by) for z in zs], steps=steps_so_far)
    for pid, p in k.daemon_children().items():
        if p.state == 'running' and pid not in reported:
            # already reported per watcher above when the watcher is still in the directory
            if p.tag not in [simhist.tag_of(n) for n in names]:
                res.violation('C04/untracked-live-worker[watcher-gone]', 'live child %d (%s) belongs to no watcher'
                              % (pid, p.tag))
    res.obs['quiescent_points'] += 1
    res.obs['processes_compared'] += compared
    return compared


@gen.coroutine
def _history(w, h, res, dry, out):
    k = w.kernel
    yield simhist.boot(w, h)
    r = simhist.Runner(w, h)
    log0 = len(k.log)
    mark = [None]
    compared = 0
    done_steps = []
    for i, st in enumerate(h['steps']):
        if w.stalled is not None:
            break
        if st[0] == 'mark':
            mark[0] = k.calls
            continue
        if st[0] == 'qpoint':
            if (yield quiesce(w)):
                compared += account(w, h, res, list(done_steps))
            continue
        yield r.do(i, st)
        done_steps.append(st)
    if w.stalled is not None:
        res.obs['histories_stalled(C05 owns)'] += 1
        return
    ok = yield quiesce(w)
    if dry:
        out['n'] = k.calls - (mark[0] or k.calls)
    if not ok:
        res.obs['histories_stalled(C05 owns)' if w.stalled else 'histories_not_quiescent(C05 owns)'] += 1
        return
    compared += account(w, h, res, done_steps)
    changed = any(e[1] in ('spawn', 'exit', 'signal') for e in k.log[log0:])
    if compared and changed and not dry:
        res.nontrivial(simhist.kernel_sig(w, done_steps))
        if res.sample is None:
            res.sample = {'watchers': h['watchers'], 'steps': done_steps, 'spawn_fail': h.get('spawn_fail'),
                          'final_live': k.live()}
    res.obs['hook_calls'] += sum(w.hook_calls.values())
    res.obs['spawn_failures_injected'] += sum(1 for a in k.spawn_fail if a <= k.spawn_attempts)
    for kind in ('spawn', 'signal', 'exit', 'reaped'):
        res.obs['kernel_' + kind] += sum(1 for e in k.log if e[1] == kind)


def starved(merged, tier):
    o = merged['obs']
    out = []
    if o.get('quiescent_points', 0) < 1000:
        out.append('only %d quiescent points judged' % o.get('quiescent_points', 0))
    if o.get('boundaries_injected', 0) < 100:
        out.append('only %d boundary injections' % o.get('boundaries_injected', 0))
    if not o.get('spawn_failures_injected'):
        out.append('no spawn failure was injected')
    if not o.get('hook_calls'):
        out.append('no scripted hook ran')
    return out


def precheck():
    from vlib.calibrate import calibrate
    return calibrate()


def shard_env(i, n):
    """one shard in four runs the daemon code with DEBUG set in its environment (circus then wraps its methods in
    tracing decorators at import time: a different code path through every call)"""
    return {'DEBUG': '1'} if i % 4 == 3 else None
