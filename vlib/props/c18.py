"""C18 — signals reach exactly the addressed workers, with the signal that was named.

Engine SIM for both halves.  Confinement: signal / kill requests addressing own workers, the other
watcher's workers, children, grandchildren, a foreign process, pid 1, a dead pid; every signal the
daemon sends (kernel ledger) must target a worker of the named watcher or a descendant of one, and
for the clear forms the signalled set must equal the addressed set.  Designations: a table of
clear-valid / clear-invalid / ambiguous designations is pushed through every entry point that
accepts one (signal.signum, kill.signum, set stop_signal, add stop_signal, config stop_signal);
the kernel ledger says which signal was really sent.
"""
import os
import shutil
import signal
import tempfile

from tornado import gen

from vlib import simhist
from vlib.common import CaseResult, rng_for

ID = 'C18'
LEVEL = 'exploration'
RULE = ('confinement: random sequences of 6 signal/kill requests per world (2 watchers, workers with a child and a '
        'grandchild, plus a foreign process, pid 1 and a dead pid in the simulated kernel; watcher active / stopped / '
        'stopping) with name, pid, childpid, children, recursive drawn from all of those. designations: every name '
        'of signal.Signals with/without SIG prefix in upper/lower/mixed case, numbers 1..64, numeric strings, '
        'SIGRTMIN+n; clear-invalid near misses (unknown names, names followed by non-space garbage, module '
        'attributes that are not signals, empty string, null, lists, objects) through each entry point. non-trivial = '
        'a request whose effect on the kernel ledger was judged; distinct = (form, target class, designation class, '
        'entry point, outcome)')
ASSUMPTIONS = ['floats, booleans, surrounding whitespace and out-of-range numbers are ambiguous designations: recorded, '
               'never deciding',
               'the simulated kernel pid space (>= 40000) cannot name a real process; a real os.kill attempted by the '
               'daemon is blocked by the audit hook and reported as an escape']
BUDGET = {'quick': 240, 'thorough': 1500}

SIGNAMES = sorted(s.name for s in signal.Signals)
RTMIN, RTMAX = int(signal.SIGRTMIN), int(signal.SIGRTMAX)


def valid_designations():
    """[(designation, number, class)]"""
    out = []
    for nm in SIGNAMES:
        n = int(getattr(signal, nm))
        short = nm[3:]
        for form in (nm, short, nm.lower(), short.lower(), nm.capitalize(), short.capitalize(),
                     nm[:4] + nm[4:].lower(), 'sig' + short):
            out.append((form, n, 'name'))
    for n in range(1, 65):
        out.append((n, n, 'int'))
        out.append((str(n), n, 'numeric-string'))
    for off in range(0, RTMAX - RTMIN + 1):
        out.append(('SIGRTMIN+%d' % off, RTMIN + off, 'rtmin+n'))
        out.append(('rtmin+%d' % off, RTMIN + off, 'rtmin+n'))
    return out


INVALID = ['SIGFOO', 'FOO', 'TERMX', 'SIGTERMINATE', 'TERM!', 'term;kill', 'SIGTERM-', 'SIGRTMAX-1', 'KILL#',
           'SIG_IGN', 'SIG_DFL', 'SIG_BLOCK', 'Signals', 'ITIMER_REAL', 'NSIG', '', 'SIG', 'TERM+x', 'HUP,INT',
           '15x', '0x0f', None, [15], ['TERM'], {'signum': 15}, {}, 'SIGKILL\x00', 'K I L L', 'TERM+']
AMBIGUOUS = ['١٥', '+1', 15.0, 15.7, True, False, ' 15 ', ' TERM', 'TERM ', 'KILL 9', 0, -1, 65, 999, '0', '-15', 'SIGRTMAX+1',
             'RTMIN+99']


def plan(tier, seed):
    out = []
    vd = valid_designations()
    step = 60
    for i in range(0, len(vd), step):
        out.append({'part': 'valid', 'lo': i, 'hi': min(len(vd), i + step)})
    out.append({'part': 'invalid'})
    out.append({'part': 'config'})
    n = 1500 if tier == 'quick' else 40000
    for i in range(n):
        out.append({'part': 'confine', 'seed': seed, 'idx': i})
    return out


def run_case(spec):
    res = CaseResult()
    part = spec['part']
    if part == 'config':
        config_part(res)
        return res
    if part == 'confine':
        h = spec.get('h') or gen_confine(rng_for(spec['seed'], 'C18', spec['idx']))
    else:
        h = {'watchers': [{'name': 'a', 'numprocesses': 2, 'graceful_timeout': 0.1, 'beh': [{'*': ['ignore']}]}],
             'part': part, 'lo': spec.get('lo'), 'hi': spec.get('hi')}
    w = simhist.new_world(h)
    nv = len(res.viol)
    try:
        if part == 'confine':
            w.run(lambda: _confine(w, h, res))
        else:
            w.run(lambda: _designations(w, h, res))
        for v in res.viol[nv:]:
            v['spec'] = {'part': part, 'h': h, 'lo': spec.get('lo'), 'hi': spec.get('hi')}
        for ev, args in w.breach():
            if ev in ('os.kill', 'os.killpg'):
                res.violation('C18/signal-escaped-simulation', 'the daemon called the real %s%r' % (ev, args))
            else:
                res.inconclusive.append('containment breach %s' % ev)
    finally:
        w.close()
    return res


def expand_star(world):
    for p in world.kernel.procs.values():
        if '*' in p.beh:
            v = tuple(p.beh.pop('*'))
            for s in range(1, 65):
                if s not in (9, 19):
                    p.beh.setdefault(s, v)


def circus_signals(k, l0):
    out = {}
    for e in k.log[l0:]:
        if e[1] == 'signal' and e[4] == 'circus':
            out.setdefault(e[2], []).append(e[3])
    return out


# ------------------------------------------------------------------ designations
@gen.coroutine
def _designations(w, h, res):
    k = w.kernel
    yield simhist.boot(w, h)
    expand_star(w)
    tag = 'w_a'
    if h['part'] == 'valid':
        table = valid_designations()[h['lo']:h['hi']]
        for d, n, cls in table:
            expand_star(w)
            live = k.live(tag)
            # E1: signal request
            l0 = len(k.log)
            mid = w.req('signal', name='a', signum=d)
            rep = w.reply(mid)
            got = circus_signals(k, l0)
            res.obs['valid:signal'] += 1
            if not isinstance(rep, dict) or rep.get('status') != 'ok':
                res.violation('C18/valid-designation-refused:signal[%s]' % cls, 'signal signum=%r (signal %d) was answered %s'
                              % (d, n, str(rep)[:120]))
            elif any(got.get(p) != [n] for p in live) or set(got) - set(live):
                res.violation('C18/wrong-signal-number:signal[%s]' % cls, 'signal signum=%r should deliver %d to %s; kernel saw %s'
                              % (d, n, live, got))
            else:
                res.nontrivial(repr(('valid', cls, 'signal', n)))
            if n in (9,):
                yield w.advance(1.0)
                yield w.check()
                yield w.settle(10)
                expand_star(w)
            # E2: kill request with graceful_timeout 0 (stop signal n, then SIGKILL)
            live = k.live(tag)
            l0 = len(k.log)
            rep = yield w.call('kill', name='a', signum=d, graceful_timeout=0, waiting=True)
            got = circus_signals(k, l0)
            res.obs['valid:kill'] += 1
            if not isinstance(rep, dict) or rep.get('status') != 'ok':
                res.violation('C18/valid-designation-refused:kill[%s]' % cls, 'kill signum=%r answered %s' % (d, str(rep)[:120]))
            elif any((got.get(p) or [None])[0] != n for p in live):
                res.violation('C18/wrong-signal-number:kill[%s]' % cls, 'kill signum=%r should first deliver %d; kernel saw %s'
                              % (d, n, got))
            yield w.advance(1.0)
            yield w.check()
            yield w.settle(10)
            expand_star(w)
            # E3 / E4: set and add take integers only
            if isinstance(d, int):
                rep = yield w.call('set', name='a', options={'stop_signal': d}, waiting=True)
                mid = w.req('get', name='a', keys=['stop_signal'])
                val = ((w.reply(mid) or {}).get('options') or {}).get('stop_signal')
                res.obs['valid:set'] += 1
                if val != n:
                    res.violation('C18/wrong-signal-number:set', 'set stop_signal=%r then get says %r' % (d, val))
                rep = yield w.call('add', name='x%d' % d, cmd='w_x', options={'stop_signal': d})
                mid = w.req('get', name='x%d' % d, keys=['stop_signal'])
                val = ((w.reply(mid) or {}).get('options') or {}).get('stop_signal')
                res.obs['valid:add'] += 1
                if val != n:
                    res.violation('C18/wrong-signal-number:add', 'add stop_signal=%r then get says %r' % (d, val))
                yield w.call('rm', name='x%d' % d, waiting=True)
            else:
                # a name / numeric string in the options of set and add: refused (they take integers), or -- wherever
                # it is accepted -- the same signal as everywhere else, also when the watcher is stopped later
                rep = yield w.call('set', name='a', options={'stop_signal': d}, waiting=True)
                if isinstance(rep, dict) and rep.get('status') == 'ok':
                    mid = w.req('get', name='a', keys=['stop_signal'])
                    val = ((w.reply(mid) or {}).get('options') or {}).get('stop_signal')
                    res.obs['valid:set(by-name)'] += 1
                    if val != n:
                        res.violation('C18/wrong-signal-number:set[%s]' % cls, 'set stop_signal=%r was accepted, get says %r '
                                      '(signal %d)' % (d, val, n))
                    yield w.call('set', name='a', options={'stop_signal': 15}, waiting=True)
                import zlib
                xn = 'xs%d' % (zlib.crc32(str(d).encode()) % 100000)
                rep = yield w.call('add', name=xn, cmd='w_xs', start=True, waiting=True,
                                   options={'stop_signal': d, 'graceful_timeout': 0.1, 'numprocesses': 1})
                if isinstance(rep, dict) and rep.get('status') == 'ok':
                    res.obs['valid:add(by-name)'] += 1
                    yield w.settle(10)
                    mine = k.live('w_xs')
                    l0 = len(k.log)
                    rep2 = yield w.call('stop', name=xn, waiting=True)
                    yield w.settle(10)
                    got = circus_signals(k, l0)
                    if any((got.get(p) or [None])[0] != n for p in mine) or k.live('w_xs'):
                        res.violation('C18/wrong-signal-number:add[%s]' % cls,
                                      'add with stop_signal=%r was accepted; stopping that watcher should first deliver %d to '
                                      '%s: kernel saw %s, stop answered %s, still alive %s'
                                      % (d, n, mine, got, str(rep2)[:80], k.live('w_xs')))
                    for p in k.live('w_xs'):
                        k.kill(p, 9, sender='ext')
                    yield w.call('rm', name=xn, waiting=True)
                else:
                    res.obs['add_by_name_refused'] += 1
        if res.sample is None:
            res.sample = {'designations': [t[0] for t in table[:12]], 'entry_points': ['signal', 'kill', 'set', 'add']}
    else:
        for d in INVALID + AMBIGUOUS:
            amb = d in AMBIGUOUS and not (d in INVALID)
            for ep in ('signal', 'kill', 'set', 'add'):
                expand_star(w)
                l0 = len(k.log)
                if ep == 'signal':
                    mid = w.req('signal', name='a', signum=d)
                elif ep == 'kill':
                    mid = w.req('kill', name='a', signum=d, graceful_timeout=0)
                elif ep == 'set':
                    mid = w.req('set', name='a', options={'stop_signal': d})
                else:
                    mid = w.req('add', name='bad', cmd='w_bad', options={'stop_signal': d})
                yield w.settle(10)
                rep = w.reply(mid)
                got = circus_signals(k, l0)
                if amb:
                    res.ambiguous['designation %r via %s -> %s' % (d, ep, 'signal sent %s' % sorted(set(sum(got.values(), [])))
                                                                   if got else 'refused/no signal')] += 1
                else:
                    res.obs['invalid:' + ep] += 1
                    cls = designation_class(d)
                    if got:
                        res.violation('C18/invalid-designation-accepted[%s]' % cls,
                                      '%s with signum/stop_signal=%r caused signals %s (reply %s)'
                                      % (ep, d, got, str(rep)[:100]))
                    elif ep in ('set', 'add') and isinstance(rep, dict) and rep.get('status') == 'ok':
                        res.violation('C18/invalid-designation-accepted[%s]' % cls,
                                      '%s stop_signal=%r answered ok' % (ep, d))
                    else:
                        res.nontrivial(repr(('invalid', cls, ep)))
                if ep == 'add':
                    mid = w.req('rm', name='bad')
                yield w.advance(0.5)
                yield w.check()
                yield w.settle(10)
        if res.sample is None:
            res.sample = {'invalid_designations': [repr(x) for x in INVALID[:12]]}


def designation_class(d):
    if not isinstance(d, str):
        return 'non-string'
    if d == '':
        return 'empty'
    import re
    m = re.match(r'^(sig)?([A-Za-z]+)(.*)$', d, re.I)
    if m and m.group(3) and (('SIG' + m.group(2).upper()) in SIGNAMES or m.group(2).upper() in SIGNAMES):
        return 'name-followed-by-garbage'
    m2 = re.match(r'^([A-Za-z]+?)([^A-Za-z0-9_+].*)$', d)
    if m2 and (('SIG' + m2.group(1).upper()) in SIGNAMES or m2.group(1).upper() in SIGNAMES):
        return 'name-followed-by-garbage'
    if m and hasattr(signal, (d if d.upper().startswith('SIG') else 'SIG' + d).upper()) \
            and (d if d.upper().startswith('SIG') else 'SIG' + d).upper() not in SIGNAMES:
        return 'module-attribute-not-a-signal'
    if re.match(r'^\w+$', d):
        return 'unknown-name'
    return 'garbage'


def config_part(res):
    from circus.config import get_config
    d = tempfile.mkdtemp(prefix='verif-c18-')
    try:
        path = os.path.join(d, 'c.ini')
        for des, n, cls in valid_designations():
            with open(path, 'w') as f:
                f.write('[watcher:a]\ncmd = x\nstop_signal = %s\n' % des)
            try:
                val = get_config(path)['watchers'][0]['stop_signal']
            except Exception as e:
                res.violation('C18/valid-designation-refused:config[%s]' % cls, 'stop_signal = %s raised %r' % (des, e))
                continue
            res.obs['valid:config'] += 1
            if int(val) != n:
                res.violation('C18/wrong-signal-number:config[%s]' % cls, 'stop_signal = %s parsed as %r, expected %d'
                              % (des, val, n))
            else:
                res.nontrivial(repr(('valid', cls, 'config', n)))
        for des in INVALID:
            if not isinstance(des, str) or '\x00' in des or des == '':
                continue
            with open(path, 'w') as f:
                f.write('[watcher:a]\ncmd = x\nstop_signal = %s\n' % des)
            try:
                val = get_config(path)['watchers'][0]['stop_signal']
            except Exception:
                res.obs['invalid:config-refused'] += 1
                res.nontrivial(repr(('invalid', designation_class(des), 'config')))
                continue
            res.violation('C18/invalid-designation-accepted[%s]' % designation_class(des),
                          'stop_signal = %s was accepted as %r' % (des, val))
        res.sample = {'config_entries': 'stop_signal = <designation> for every table entry'}
    finally:
        shutil.rmtree(d, ignore_errors=True)


# ------------------------------------------------------------------ confinement
def gen_confine(rnd):
    kids = [{'beh': {'*': ['ignore']}, 'kids': [{'beh': {'*': ['ignore']}}]}]
    if rnd.random() < .4:
        kids = kids + [{'beh': {'*': ['ignore']}}, {'beh': {'*': ['ignore']}}]
    state = rnd.choice(['active', 'active', 'stopped', 'stopping'])
    reqs = []
    for _ in range(6):
        cmd = rnd.choice(['signal', 'signal', 'kill'])
        r = {'cmd': cmd, 'name': rnd.choice(['a', 'b']), 'signum': rnd.choice([10, 12, 1, 15, 'usr1', 'SIGHUP'])}
        for key in ('pid', 'childpid'):
            if rnd.random() < (.6 if key == 'pid' else .3):
                r[key] = rnd.choice(['own', 'own2', 'other', 'child', 'grandchild', 'foreign', 'init', 'dead', 'none',
                                     'otherchild', 'zero', 'zero', 'false', 'empty', 'orphan', 'orphan', 'ownorphan'])
        if rnd.random() < .3:
            r['children'] = True
        if rnd.random() < .3:
            r['recursive'] = True
        if cmd == 'kill':
            r.pop('childpid', None)
            r.pop('children', None)
            r.pop('recursive', None)
            r['graceful_timeout'] = 0.2
            if rnd.random() < .4:
                # one child of the addressed workers vanishes at a kernel-call boundary of the request
                r['vanish'] = [rnd.choice([1, 2, 2, 3, 3, 4, 5, 6, 8]), rnd.randint(0, 5)]
        reqs.append(r)
    if rnd.random() < .3:
        # a termination in the other watcher first (it lists that watcher's children on the way), then a signal
        # addressed to an own worker with a child of the other watcher as childpid
        other = rnd.choice(['a', 'b'])
        mine = 'b' if other == 'a' else 'a'
        reqs[0] = {'cmd': 'kill', 'name': other, 'signum': 15, 'graceful_timeout': 0.2}
        reqs[1] = {'cmd': 'signal', 'name': mine, 'signum': rnd.choice([10, 12, 'usr1']), 'pid': 'own',
                   'childpid': rnd.choice(['otherchild', 'orphan', 'orphan'])}
        if state == 'stopped' and mine == 'a':
            state = 'active'
    sc = rnd.random() < .5
    # the command goes through /bin/sh -c for some watchers: the worker is then a shell with the real program below it
    sh = rnd.choice([None, None, 'a', 'b', 'ab'])
    return {'watchers': [{'name': 'a', 'numprocesses': 2, 'graceful_timeout': 0.3, 'beh': [{'*': ['ignore']}],
                          'kids': kids, 'stop_children': sc, 'shell': bool(sh and 'a' in sh)},
                         {'name': 'b', 'numprocesses': 1, 'graceful_timeout': 0.3, 'beh': [{'*': ['ignore']}],
                          'kids': kids, 'stop_children': sc, 'shell': bool(sh and 'b' in sh)}],
            'state': state, 'reqs': reqs}


@gen.coroutine
def _confine(w, h, res):
    k = w.kernel
    yield simhist.boot(w, h)
    expand_star(w)
    foreign = k.spawn(['foreign'], None, None, ppid=1, beh={}, tag='foreign')
    initp = k.spawn(['init'], None, None, ppid=1, beh={}, tag='init')
    dead = k.spawn(['dead'], None, None, ppid=1, beh={}, tag='dead')
    k.schedule_death(dead, 0, 9, 'ext')
    k._settle()
    if h['state'] == 'stopped':
        yield w.call('stop', name='a', waiting=True)
    elif h['state'] == 'stopping':
        # stubborn workers + long grace: the watcher stays `stopping` while we signal
        w.arb.get_watcher('a').graceful_timeout = 1e6
        w.req('stop', name='a')
        yield w.advance(0.2)
    for r in h['reqs']:
        if w.stalled is not None or not w.arb.ctrl.started:
            break
        expand_star(w)
        name = r['name']
        other = 'b' if name == 'a' else 'a'
        workers = k.live(simhist.tag_of(name))
        oworkers = k.live(simhist.tag_of(other))

        def resolve(sel):
            if sel in ('own', 'own2'):
                return workers[(0 if sel == 'own' else -1)] if workers else 39999
            if sel == 'other':
                return oworkers[0] if oworkers else 39998
            if sel == 'child':
                return next((c.pid for c in k.procs.values() if workers and c.ppid == workers[0] and c.state == 'running'), 39997)
            if sel == 'otherchild':
                return next((c.pid for c in k.procs.values() if oworkers and c.ppid == oworkers[0] and c.state == 'running'), 39996)
            if sel == 'grandchild':
                ch = [c.pid for c in k.procs.values() if workers and c.ppid == workers[0]]
                return next((g.pid for g in k.procs.values() if g.ppid in ch and g.state == 'running'), 39995)
            if sel == 'foreign':
                return foreign.pid
            if sel == 'init':
                return initp.pid
            if sel == 'dead':
                return dead.pid
            if sel in ('orphan', 'ownorphan'):
                # a still-running former child of an already dead worker (re-parented to init)
                tg = 'kid:' + simhist.tag_of(other if sel == 'orphan' else name)
                return next((c.pid for c in k.procs.values() if c.tag == tg and c.state == 'running' and c.ppid == 1), 39994)
            if sel == 'zero':
                return 0
            if sel == 'false':
                return False
            if sel == 'empty':
                return ''
            return 39990
        props = {'name': name, 'signum': r['signum']}
        for key in ('pid', 'childpid'):
            if key in r:
                props[key] = resolve(r[key])
        for key in ('children', 'recursive', 'graceful_timeout'):
            if key in r:
                props[key] = r[key]
        from circus.util import to_signum
        n = to_signum(r['signum'])
        desc = {p: k.descendants(p) for p in workers}
        alldesc = set().union(*desc.values()) if desc else set()
        allowed = set(workers) | alldesc
        l0 = len(k.log)
        kids0 = {p: [c.pid for c in k.procs.values() if c.orig_ppid == p and c.ppid == p and c.state == 'running']
                 for p in workers}
        stopping0 = {p: bool(getattr(w.arb.get_watcher(name).processes.get(p), 'stopping', False)) for p in workers}
        running0 = {p: k.procs[p].state == 'running' for p in workers}
        vanished = []
        if r.get('vanish') and workers:
            off, idx = r['vanish']

            def vanish(kern, idx=idx, cands=sorted(c for v in kids0.values() for c in v)):
                cands = [c for c in cands if kern.procs[c].state == 'running']
                if cands:
                    kern.schedule_death(kern.procs[cands[idx % len(cands)]], 0.0, 9, 'ext')
                    vanished.append(cands[idx % len(cands)])
                    res.obs['children_vanished_during_kill'] += 1
            k.inject[k.calls + off] = vanish
        t_req = w.clock.now
        mid = w.req(r['cmd'], **props)
        k.inject.clear()
        if r['cmd'] == 'signal':
            got = circus_signals(k, l0)       # the signal command is synchronous
            yield w.settle(30)
        else:
            yield w.settle(30)
            got = circus_signals(k, l0)
        rep = w.reply(mid)
        res.obs['requests:' + r['cmd']] += 1
        res.obs['signals_sent'] += sum(len(v) for v in got.values())
        form = tuple(sorted((kk, r[kk]) for kk in ('pid', 'childpid', 'children', 'recursive') if kk in r))
        outside = sorted(set(got) - allowed)
        if outside:
            res.violation('C18/signal-outside-named-watcher:%s' % r['cmd'],
                          '%s %s signalled %s which are not workers/descendants of watcher %s (%s)'
                          % (r['cmd'], props, [(p, k.procs[p].tag) for p in outside], name, sorted(allowed)))
        if r['cmd'] == 'signal':
            wrongnum = {p: v for p, v in got.items() if any(s != n for s in v)}
            if wrongnum:
                res.violation('C18/wrong-signal-number:signal-request', '%s delivered %s, designated %d' % (props, wrongnum, n))
            # clear forms
            exp = None
            if 'pid' not in r and 'childpid' not in r:
                if r.get('children'):
                    exp = set().union(*[set(c.pid for c in k.procs.values() if c.orig_ppid == p and c.state == 'running')
                                        for p in workers]) if workers else set()
                elif r.get('recursive'):
                    exp = set(x for x in allowed if k.procs[x].state == 'running')
                else:
                    exp = set(workers)
            elif 'pid' in r and 'childpid' not in r:
                pid = props['pid']
                if pid in workers:
                    if r.get('children'):
                        exp = set(c.pid for c in k.procs.values() if c.orig_ppid == pid and c.state == 'running')
                    elif r.get('recursive'):
                        exp = {pid} | set(x for x in k.descendants(pid) if k.procs[x].state == 'running')
                    else:
                        exp = {pid}
                else:
                    exp = set()
            elif 'pid' in r and 'childpid' in r:
                pid, cp = props['pid'], props['childpid']
                if pid in workers and cp in [c.pid for c in k.procs.values() if c.orig_ppid == pid and c.state == 'running']:
                    exp = {cp}
                else:
                    exp = set()
            if exp is not None:
                res.obs['clear_forms_judged'] += 1
                if set(got) != exp and w.arb.get_watcher(name).status() != 'stopped' or (
                        w.arb.get_watcher(name).status() == 'stopped' and got):
                    res.violation('C18/addressed-set-mismatch:%s' % ('+'.join(k_ for k_, _ in form) or 'all'),
                                  'signal %s: addressed %s, signalled %s (watcher %s)' % (props, sorted(exp), sorted(got),
                                                                                        w.arb.get_watcher(name).status()))
                else:
                    res.nontrivial(repr(('confine', r['cmd'], form, h['state'], bool(got))))
        else:
            wobj = w.arb.get_watcher(name) if name in [x.name for x in w.arb.watchers] else None
            if (isinstance(rep, dict) and rep.get('status') == 'ok' and wobj is not None
                    and ('pid' not in r or props['pid'] in workers)):
                # the designated signal reaches every addressed worker and, with stop_children, its children
                # (the synchronous part of the request; a worker another termination is already busy with is
                # left to that one)
                addressed = [props['pid']] if 'pid' in r else list(workers)
                first = {}
                for e in k.log[l0:]:
                    if e[1] == 'signal' and e[4] == 'circus' and e[0] - t_req < 0.001:
                        first.setdefault(e[2], e[3])
                want = set()
                for p in addressed:
                    if stopping0.get(p) or not running0.get(p):
                        continue
                    want.add(p)
                    if wobj.stop_children:
                        want |= set(kids0.get(p, []))
                want -= set(vanished)
                missing = sorted(p for p in want if first.get(p) != n)
                res.obs['kill_requests_judged'] += 1
                if missing:
                    res.violation('C18/kill-missed-addressed-process' + ('[a-child-vanished]' if vanished else ''),
                                  'kill %s: processes %s (%s) were addressed and did not get signal %d with the '
                                  'request (got %s; vanished child %s)'
                                  % (props, missing, [k.procs[p].tag for p in missing], n,
                                     {p: first.get(p) for p in missing}, vanished))
            if 'pid' in r and props['pid'] not in workers and got:
                res.violation('C18/kill-of-foreign-pid', 'kill %s signalled %s' % (props, got))
            else:
                res.nontrivial(repr(('confine', 'kill', form, h['state'], bool(got))))
        if res.sample is None and got:
            res.sample = {'state': h['state'], 'request': [r['cmd'], props], 'workers': workers,
                          'descendants': sorted(alldesc), 'signalled': {str(p): v for p, v in got.items()}}
        yield w.advance(0.5)
        if h['state'] != 'stopping':
            yield w.check()
            yield w.settle(10)
    for p in (foreign, initp):
        if p.signals:
            res.violation('C18/foreign-process-signalled', 'process %s received %s' % (p.tag, p.signals))


def starved(merged, tier):
    o = merged['obs']
    out = []
    if o.get('valid:signal', 0) < len(valid_designations()):
        out.append('designation table only partly run (%d)' % o.get('valid:signal', 0))
    if o.get('clear_forms_judged', 0) < 1000:
        out.append('only %d clear addressing forms judged' % o.get('clear_forms_judged', 0))
    if o.get('signals_sent', 0) < 1000:
        out.append('only %d signals observed' % o.get('signals_sent', 0))
    return out


def precheck():
    from vlib.calibrate import calibrate
    return calibrate()


def shard_env(i, n):
    """a quarter of the shards run the daemon code with DEBUG set in its environment (circus then wraps its methods
    in tracing decorators at import time)"""
    return {'DEBUG': '1'} if i % 4 == 3 else None
