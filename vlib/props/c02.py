"""C02 — stop leaves no survivor and no zombie, and stopped stays stopped.

Engine SIM, fault enumeration: for each base history the stop-class request is first run dry
to count the kernel-call boundaries N of the stop sequence, then re-run N times with a worker
death injected at boundary 1..N.  Oracle at the *instant the request completes* (reply body
written / PUB socket closed for a signal-style quit): every member of the watcher's process
table at the start of the request (and everything spawned for it during a stop) is `gone` in
the kernel; then a tail of checks / non-start requests must not spawn for a stopped watcher.
"""
from tornado import gen

from vlib import simgen, simhist
from vlib.common import CaseResult, rng_for

ID = 'C02'
LEVEL = 'fault_enumeration'
RULE = ('base histories = random watcher set (obedient / slow / stubborn workers, graceful_timeout 0..2 s, '
        'SIGKILL latency 0/0.5/2 ms) + 0-3 prefix steps + one of stop / restart / rm / quit (client) / quit '
        '(signal-style, no client id) / stop-all, all sent with waiting; per base a dry run counts the '
        'kernel-call boundaries of the stop sequence and one further run per boundary injects a worker death '
        '(exit 0, exit 3 or external SIGKILL) exactly there; stop and stop-all are followed by a random tail of '
        'checks, advances and non-start requests. non-trivial = the stop-class request was accepted, ran to '
        'completion and the completion oracle inspected >=1 process; distinct = canonical kernel trace')
ASSUMPTIONS = ['simulated kernel calibrated against real psutil/subprocess',
               'rm nostop leaves workers alive by documented design (not judged)',
               'a stop that never completes is reported by C05 (blocked loop), not here']
BUDGET = {'quick': 240, 'thorough': 1500}
CASE_TIMEOUT = 180          # a LIVE history (real daemon, real grace periods) takes 20-60 s of wall clock
EXHAUSTIVE = None
CAP = 80

PREFIX = ['incr', 'extkill', 'selfexit', 'check', 'advance', 'decr', 'sigexit']
TAIL = ['check', 'check', 'advance', 'incr', 'decr', 'setnp', 'setopt', 'setopt', 'signal', 'kill', 'status', 'extkill']
OPS = ['stop', 'stop', 'restart', 'rm', 'quit', 'quit_signal', 'stopall']


def plan(tier, seed):
    n = 260 if tier == 'quick' else 6000
    return ([{'kind': 'base', 'seed': seed, 'idx': i} for i in range(n)] +
            [{'kind': 'live', 'seed': seed, 'idx': i} for i in range(3 if tier == 'quick' else 30)])


def materialise(spec):
    rnd = rng_for(spec['seed'], 'C02', spec['idx'])
    ws = [simgen.gen_watcher(rnd, 'a', np_choices=(1, 2, 3), stubborn_bias=.3)]
    if rnd.random() < .4:
        ws.append(simgen.gen_watcher(rnd, 'b', np_choices=(1, 2)))
    for w in ws:
        w['singleton'] = False
        if rnd.random() < .3:
            # hooks around the stop sequence that refuse or fail: none of them may keep a worker alive or listed
            # (before_stop / before_reap / after_* results are documented as ignored, a vetoed stop signal is
            # followed by SIGKILL, which no hook can veto)
            w['hooks'] = {hn: [rnd.choice(['false', 'raise', 'true', 'false@1', 'raise@2']), rnd.random() < .3]
                          for hn in rnd.sample(['before_stop', 'after_stop', 'before_signal', 'after_signal',
                                                'before_reap', 'after_reap'], rnd.randint(1, 3))}
    names = [w['name'] for w in ws]
    h = {'kill_latency': rnd.choice([0.0, 0.0005, 0.002]), 'watchers': ws,
         'steps': simgen.gen_steps(rnd, names, PREFIX, 0, 3),
         'op': rnd.choice(OPS),
         'death': rnd.choice([0, 768, 9]),
         'death_cause': 'self'}
    if h['death'] == 9:
        h['death_cause'] = 'ext'
    if rnd.random() < .15:
        # the wall clock is stepped at a kernel-call boundary of the stop sequence
        h['clock'] = [rnd.choice([1, 2, 3, 4, 6, 9, 14, 20]), rnd.choice([-3600.0, 3600.0, -5.0, 86400.0])]
    f = rnd.random()
    if f < .2:
        # the watcher has a past: earlier stop / start / restart cycles before the operation that is judged
        cyc = rnd.choice([['stop', 'restart'], ['stop', 'start'], ['stop', 'start', 'stop', 'start'],
                          ['restart', 'stop', 'restart'], ['stop', 'stop', 'start']])
        h['steps'] = h['steps'] + [['call', c, {'name': 'a', 'waiting': True}] for c in cyc]
    elif f < .32:
        # max_age: workers are being replaced because of their age when the operation arrives
        ws[0]['max_age'] = 1
        ws[0]['max_age_variance'] = 0
        h['steps'] = h['steps'] + [['adv', 1.3], ['check']] + ([['adv', rnd.choice([0, .05, .3])]] if rnd.random() < .7 else [])
    elif f < .42:
        # the operation arrives while another one on the same watcher, sent without waiting, is still spawning: it is
        # refused, or (quit by signal) done afterwards -- and whenever it is reported complete, nothing is left
        ws[0]['warmup_delay'] = rnd.choice([0.3, 0.5])
        ws[0]['numprocesses'] = max(ws[0]['numprocesses'], 2)
        h['steps'] = h['steps'] + [['req', rnd.choice(['restart', 'reload', 'restart']), {'name': 'a', 'waiting': False}],
                                   ['adv', rnd.choice([0.05, 0.2, 0.45])]]
        h['overlap'] = True
    h['tail'] = simgen.gen_steps(rnd, ['a'] if h['op'] == 'stop' else names, TAIL, 2, 6)
    return h


def live_case(spec, res):
    """the same property on a real circusd with real workers: wall clock and /proc instead of the simulated kernel"""
    from vlib import livehist
    rnd = rng_for(spec['seed'], 'C02-live', spec['idx'])
    ls = livehist.gen_spec(rnd, nsteps=5, stop_heavy=True)
    # next to an idle on-demand watcher (stream or datagram socket) that nobody contacts
    ls['on_demand'] = ['dgram', 'trigger', False][spec['idx'] % 3]
    rec = livehist.run(ls, strace=False, probe=False)
    if rec['problem']:
        res.inconclusive.append('live: ' + rec['problem'][:200])
        return
    livehist.judge_stop(rec, res, ls)
    res.obs['live_daemons'] += 1
    res.nontrivial(repr(('live', [(w['kind'], w['np']) for w in ls['watchers']], ls['steps'])))
    if res.sample is None:
        res.sample = {'live': True, 'watchers': ls['watchers'], 'steps': ls['steps']}


def run_case(spec):
    res = CaseResult()
    if spec.get('kind') == 'live':
        live_case(spec, res)
        for v in res.viol:
            v['spec'] = spec
        return res
    if 'steps' in spec:           # concrete history (replay)
        run_history(spec, res, spec.get('inject_at'))
        return res
    h = materialise(spec)
    n = run_history(h, res, None)
    res.obs['bases'] += 1
    res.hist['boundaries_of_stop_sequence'][min(n, CAP)] += 1
    for b in range(1, min(n, CAP) + 1):
        hh = dict(h)
        hh['inject_at'] = b
        run_history(hh, res, b)
        res.obs['boundaries_injected'] += 1
    if res.sample is None:
        res.sample = {'watchers': h['watchers'], 'prefix': h['steps'], 'op': h['op'], 'tail': h['tail'],
                      'boundaries': n}
    return res


def run_history(h, res, inject_at):
    w = simhist.new_world(h)
    out = {'n': 0}
    nv = len(res.viol)
    try:
        w.run(lambda: _history(w, h, res, inject_at, out))
        for v in res.viol[nv:]:
            v['spec'] = h
        if w.breach():
            res.inconclusive.append('containment breach')
    finally:
        w.close()
    return out['n']


def _table(w):
    """pid sets of each watcher's process table (anchored state Watcher.processes)"""
    return {x.name: set(x.processes) for x in list(w.arb.watchers)}


@gen.coroutine
def _history(w, h, res, inject_at, out):
    k = w.kernel
    yield simhist.boot(w, h)
    r = simhist.Runner(w, h)
    yield r.run_steps()
    if w.stalled is not None:
        res.obs['stalled_before_op(C05 owns)'] += 1
        return
    took = 0 if h.get('overlap') else (yield w.settle(200.0))
    if took is None or w.stalled is not None:
        res.obs['prefix_not_quiescent(C05 owns)'] += 1
        return
    if h.get('overlap'):
        res.obs['ops_sent_while_%s' % ('another_operation_is_in_flight' if w.arb._exclusive_running_command else
                                       'nothing_is_in_flight')] += 1
    op = h['op']
    names = [c['name'] for c in h['watchers']]
    targets = ['a'] if op in ('stop', 'restart', 'rm') else names
    watchers = {n: w.arb.get_watcher(n) for n in names}
    status0 = {n: watchers[n].status() for n in names}
    before = _table(w)
    # "every worker the watcher had started": also a worker the daemon has dropped from its table while it was
    # still running (the process table of the kernel decides, not the daemon's bookkeeping)
    # (one that has already been sent SIGKILL and is inside the kernel's kill latency is as good as dead; what an
    # earlier removal leaves as a zombie until the next periodic check is not this operation's business either)
    offbooks = {}
    for x in list(w.arb.watchers):
        offbooks[x.name] = set(p for p in k.live(simhist.tag_of(x.name))
                               if p not in before.get(x.name, ()) and k.procs[p].state == 'running'
                               and not (k.procs[p].death_at is not None and k.procs[p].cause == 'circus:9'))
    t_begin = w.clock.now
    mark = k.calls
    if inject_at is not None:
        st, cause = h['death'], h['death_cause']

        def inj(kern):
            live = [p for p in kern.live() if kern.procs[p].tag in [simhist.tag_of(t) for t in targets]]
            if live:
                kern.schedule_death(kern.procs[live[inject_at % len(live)]], 0.0, st, cause)
                res.obs['deaths_landed'] += 1
        k.inject[mark + inject_at] = inj
    if h.get('clock'):
        coff, delta = h['clock']

        def cstep(kern, delta=delta):
            w.clock.wall_offset += delta
            res.obs['wall_clock_steps_during_the_stop'] += 1
        prev = k.inject.get(mark + coff)
        k.inject[mark + coff] = cstep if prev is None else (lambda kern, a=prev, b=cstep: (a(kern), b(kern)))
    done = {}

    def evaluate(why):
        done['t'] = w.clock.now
        done['calls'] = k.calls
        bad = []
        inspected = 0
        for n in targets:
            tag = simhist.tag_of(n)
            members = set(before.get(n, ()))
            if op != 'restart':
                members |= {p.pid for p in k.procs.values() if p.tag == tag and p.spawn_no and p.created >= t_begin}
            k._settle()
            for pid in sorted(members):
                inspected += 1
                stt = k.procs[pid].state
                if stt == 'running' and h.get('overlap') and k.procs[pid].death_at is not None \
                        and k.procs[pid].cause == 'circus:9' and pid not in watchers[n].processes:
                    # sent SIGKILL and dropped by the overlapped operation an instant ago, inside the kernel's kill
                    # latency: as good as dead (the rule applied to off-the-books workers above)
                    res.obs['sigkilled_by_the_overlapped_operation_inside_the_kill_latency(tolerated)'] += 1
                elif stt == 'running':
                    bad.append(('survivor', n, pid))
                elif stt == 'zombie' and h.get('overlap') and pid not in watchers[n].processes \
                        and any(s_ == 9 and snd == 'circus' for (_t, s_, snd) in k.procs[pid].signals):
                    # SIGKILLed and dropped from the table by the OTHER operation (the one this request overlapped),
                    # dead a kernel latency later (or by itself in that very instant): the zombie that leaves until
                    # the next periodic check is that operation's, the tolerated class of the note above
                    res.obs['zombies_left_by_the_overlapped_operation(tolerated)'] += 1
                elif stt == 'zombie':
                    bad.append(('zombie', n, pid))
            for pid in sorted(offbooks.get(n, ())):
                inspected += 1
                p_ = k.procs[pid]
                if p_.state == 'running' and not (p_.death_at is not None and p_.cause == 'circus:9'):
                    bad.append(('survivor', n, pid))
            if op != 'restart':
                wo = watchers[n]
                if wo.status() != 'stopped' or len(wo.processes) != 0:
                    bad.append(('status', n, wo.status(), len(wo.processes)))
        done['bad'] = bad
        done['inspected'] = inspected

    if op == 'quit_signal':
        yield r.do(0, ['quit_signal'])
        waited = 0.0
        while not w.arb.evpub_socket.closed and waited < 300 and w.stalled is None:
            yield gen.sleep(0.01)
            waited += 0.01
        if w.arb.evpub_socket.closed:
            evaluate('pub closed')
        mid = None
    else:
        cmd = {'stop': 'stop', 'restart': 'restart', 'rm': 'rm', 'quit': 'quit', 'stopall': 'stop'}[op]
        props = {'waiting': True}
        if op in ('stop', 'restart', 'rm'):
            props['name'] = 'a'
        box = {}

        def hook(body):
            if isinstance(body, dict) and body.get('id') == box.get('mid') and 't' not in done:
                done['reply'] = body
                if body.get('status') == 'ok':
                    evaluate('reply')
        w.reply_hooks.append(hook)
        # the id is only known after req(); predict it
        box['mid'] = 'm%d' % (w.next_mid + 1)
        mid = w.req(cmd, **props)
        waited = 0.0
        while 'reply' not in done and waited < 300 and w.stalled is None:
            yield gen.sleep(0.05)
            waited += 0.05
        w.reply_hooks.remove(hook)
    if w.stalled is not None:
        res.obs['stalled_in_op'] += 1
        k._settle()
        alive = [p.pid for p in k.procs.values() if p.spawn_no and p.state == 'running'
                 and p.tag in [simhist.tag_of(t) for t in targets]]
        res.violation('C02/stop-never-completed[loop-blocked]:' + op,
                      '%s never completed: the event loop dead-locked in %s; workers still alive: %s'
                      % (op, w.stalled['site'], alive), inject_at=inject_at)
        return
    if 't' not in done:
        if done.get('reply', {}).get('status') == 'error':
            res.obs['op_refused'] += 1
        else:
            res.obs['op_not_completed'] += 1
            res.violation('C02/stop-never-completed:' + op, '%s sent with waiting was not completed after 300 s of virtual '
                          'time' % op, inject_at=inject_at)
        return
    out['n'] = done['calls'] - mark
    res.obs['ops_completed:' + op] += 1
    res.obs['processes_inspected_at_completion'] += done['inspected']
    for b in done['bad']:
        if b[0] == 'status':
            res.violation('C02/status-after-%s' % op, 'after completed %s watcher %s reports status=%s with %d '
                          'processes' % (op, b[1], b[2], b[3]))
        else:
            res.violation('C02/%s:%s' % (b[0], op), 'at the instant %s completed, worker %d of watcher %s is %s'
                          % (op, b[2], b[1], 'still running' if b[0] == 'survivor' else 'an unreaped zombie'),
                          inject_at=inject_at, death=h.get('death'))
    if done['inspected']:
        res.nontrivial(simhist.kernel_sig(w, h['steps'] + [[op]]))
    # protocol view right after (stop / stopall only: the watcher is still in the directory)
    if op in ('stop', 'stopall'):
        for n in targets:
            stt = simhist.reported_status(w, n)
            mid2 = w.req('numprocesses', name=n)
            npr = (w.reply(mid2) or {}).get('numprocesses')
            mid3 = w.req('list', name=n)
            pids = (w.reply(mid3) or {}).get('pids')
            res.obs['protocol_views_checked'] += 1
            if stt != 'stopped' or npr != 0 or pids != []:
                res.violation('C02/reported-after-%s' % op, 'after completed %s: status=%s numprocesses=%s pids=%s'
                              % (op, stt, npr, pids))
        # stopped stays stopped
        tags = {simhist.tag_of(n): n for n in targets}
        l0 = len(k.log)
        last = ['(none)']

        def before_step(i, st):
            last[0] = st[1] if st[0] == 'req' else st[0]
            spawned = [e for e in k.log[l0:] if e[1] == 'spawn' and e[3] in tags]
            if spawned and 'spawn_seen' not in done:
                done['spawn_seen'] = (last[0], spawned[0])
        yield r.run_steps(h['tail'], before=before_step)
        if w.stalled is None:
            yield w.settle(200.0)
        spawned = [e for e in k.log[l0:] if e[1] == 'spawn' and e[3] in tags]
        res.obs['tail_steps_run'] += len(h['tail'])
        if spawned:
            # attribute to the step after which the spawn was first seen
            culprit = None
            ll = l0
            res.violation('C02/spawn-while-stopped', 'a worker was spawned for stopped watcher %s (pid %d) during the '
                          'tail %s' % (tags[spawned[0][3]], spawned[0][2], h['tail']))
    for kind in ('spawn', 'signal', 'exit', 'reaped'):
        res.obs['kernel_' + kind] += sum(1 for e in k.log if e[1] == kind)


def starved(merged, tier):
    o = merged['obs']
    out = []
    if o.get('boundaries_injected', 0) < 200:
        out.append('only %d boundary injections ran' % o.get('boundaries_injected', 0))
    if o.get('deaths_landed', 0) < 100:
        out.append('only %d injected deaths landed on a live worker' % o.get('deaths_landed', 0))
    for op in set(OPS):
        if not o.get('ops_completed:' + op):
            out.append('no completed %s observed' % op)
    if not o.get('tail_steps_run'):
        out.append('stopped-stays-stopped tail never ran')
    return out


def precheck():
    from vlib.calibrate import calibrate
    return calibrate()


def shard_env(i, n):
    """one shard in four runs the daemon code with DEBUG set in its environment (circus then wraps its methods in
    tracing decorators at import time: a different code path through every call)"""
    return {'DEBUG': '1'} if i % 4 == 3 else None
