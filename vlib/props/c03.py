"""C03 — graceful termination: stop signal first, SIGKILL only after the grace period.

Engine SIM (exact virtual time).  One terminating cause per history; the kernel's per-pid
signal log is cut into *episodes* (signals the daemon sends to one pid after the cause began).
R1 first signal = designated stop signal; R2 no SIGKILL before t0+gt; R3 no SIGKILL call to a
worker that had exited by t0+gt-step; R4 a worker still running at t0+gt+step has been sent
SIGKILL; R5 with stop_children the direct children get the stop signal with the worker and the
escalation SIGKILL too.
"""
import itertools

from tornado import gen

from vlib import simhist
from vlib.common import CaseResult, rng_for
from vlib.sim import EPOCH

ID = 'C03'
LEVEL = 'exploration'
STEP = 0.1
EPS = 0.005
RULE = ('grid over stop_signal {TERM,INT,QUIT,USR1,HUP} x graceful_timeout {0,.1,.25,.3,.7,1,2} x worker reaction '
        '(dies d after the stop signal for d in {0, step/2, gt-step, gt-eps, gt, gt+eps, gt+step, gt+.35}, exits '
        'with a code, or ignores it) x cause {stop, restart, decr, reload graceful/sequential/terminate, kill '
        'request (all / one pid, with signum and graceful_timeout overrides), max_age expiry, rm, quit} x '
        'stop_children on/off with 0-3 children (obedient / stubborn, a grandchild) x SIGKILL latency; quick '
        'samples the grid at random, thorough enumerates it. An episode = daemon->pid signals after the cause '
        'began; non-trivial = >=1 episode judged; distinct = canonical kernel trace')
ASSUMPTIONS = ['virtual clock: tornado_sleep(0.1) takes exactly 0.1 s, so lateness is measured in polling steps',
               'a SIGKILL call to an already-dead, unreaped worker inside the last polling step before the deadline '
               'is tolerated (the statement grants one polling step; kill() on a zombie delivers nothing)',
               'before_signal vetoes belong to C14']
BUDGET = {'quick': 240, 'thorough': 1500}
CASE_TIMEOUT = 180          # a LIVE history (real daemon, real grace periods) takes 20-60 s of wall clock

SIGS = [15, 2, 3, 10, 1, 35, 50]          # incl. real-time signals (no name in Python's signal module)
GTS = [0, .1, .25, .3, .7, 1.0, 2.0]
CAUSES = ['stop', 'restart', 'decr', 'reload', 'reloadseq', 'reloadterm', 'kill', 'kill_pid', 'kill_over',
          'max_age', 'rm', 'quit',
          # a second termination arriving inside the grace period of a non-exclusive kill request
          'kill_then_decr', 'kill_then_set0', 'kill_then_kill', 'kill_then_incr',
          # a history of terminations: several restarts in a row (every generation is judged)
          'restart_x5']
KIDS = [[], [], [{'beh': {}}], [{'beh': {'*': ['ignore']}}], [{'beh': {}}, {'beh': {'*': ['ignore']}}],
        [{'beh': {'*': ['ignore']}, 'kids': [{'beh': {'*': ['ignore']}}]}],
        [{'beh': {}}, {'beh': {'*': ['ignore']}}, {'beh': {'*': ['ignore']}}]]


def reactions(gt):
    ds = sorted({0.0, STEP / 2, max(0.0, gt - STEP), max(0.0, gt - 0.001), gt, gt + 0.001, gt + STEP, gt + .35})
    out = [('die', d) for d in ds]
    out += [('exit', 0.02, 0), ('exit', max(0, gt - 0.001), 3), ('ignore',)]
    return out


def grid():
    for sig, gt, cause in itertools.product(SIGS, GTS, CAUSES):
        for react in reactions(gt):
            yield sig, gt, cause, react


def plan(tier, seed):
    cells = list(grid())
    rnd = rng_for(seed, 'C03-plan')
    if tier == 'quick':
        rnd.shuffle(cells)
        cells = cells[:2600]
        return ([{'cell': c, 'seed': seed, 'idx': i, 'variants': 1} for i, c in enumerate(cells)] +
                [{'kind': 'live', 'seed': seed, 'idx': i} for i in range(3)])
    return ([{'cell': c, 'seed': seed, 'idx': i, 'variants': 6} for i, c in enumerate(cells)] +
            [{'kind': 'live', 'seed': seed, 'idx': i} for i in range(30)])


def materialise(spec, v):
    sig, gt, cause, react = spec['cell']
    rnd = rng_for(spec['seed'], 'C03', spec['idx'], v)
    stop_children = rnd.random() < .5
    kids = rnd.choice(KIDS) if stop_children or rnd.random() < .3 else []
    np_ = rnd.choice([1, 2, 3])
    beh = {str(sig): list(react)}
    over = {}
    if cause == 'kill_over':
        osig = rnd.choice([s for s in SIGS if s != sig])
        ogt = rnd.choice([g for g in GTS if g != gt])
        over = {'signum': rnd.choice([osig, str(osig)]), 'graceful_timeout': ogt}
        beh = {str(osig): list(react)}
        # keep the reaction meaningful relative to the overriding timeout
        if react[0] in ('die', 'exit'):
            beh = {str(osig): [react[0], min(react[1], ogt + .35)] + list(react[2:])}
    if stop_children and list(react) == ['ignore'] and rnd.random() < .4:
        # the worker answers the stop signal by forking one more helper and goes on: a child that did not exist when
        # the stop signal was sent
        beh = {k_: ['fork'] for k_ in beh}
    behs = [beh]
    if cause == 'restart_x5':
        # the first generations sit out the grace period (or do whatever the cell says), the later ones would
        # leave in time: what happened to their predecessors must not matter
        stub = {str(sig): ['ignore']}
        quick = {str(sig): ['die', min(0.05, gt / 2.0)]}
        behs = rnd.choice([[stub] * (3 * np_) + [quick] * (4 * np_), [beh] * (2 * np_) + [stub] * np_ + [quick] * (4 * np_),
                           [beh]])
    w = {'name': 'a', 'numprocesses': np_, 'graceful_timeout': gt, 'stop_signal': sig,
         'stop_children': stop_children, 'beh': behs, 'kids': kids,
         'warmup_delay': rnd.choice([0, 0, .2])}
    if cause == 'max_age':
        w['max_age'] = 1
        w['max_age_variance'] = 0
    setvia = rnd.random() < .2 and cause not in ('max_age',)
    h = {'kill_latency': rnd.choice([0.0, 0.0005, 0.002]), 'watchers': [w], 'cause': cause, 'over': over,
         'steps': [], 'setvia': setvia}
    if len(kids) >= 2 and rnd.random() < .6:
        # one child vanishes (killed from outside and collected by its parent) at a kernel-call boundary of the
        # termination: between the listing of the children and their turn in the loop, or just before the
        # escalation; the other children must still get the stop signal and the final SIGKILL
        h['kid_death'] = [rnd.choice([1, 1, 2, 2, 3, 4, 5, 6, 8, 12, 20, 30]), rnd.randint(0, 2)]
    if rnd.random() < .15:
        # the wall clock is stepped (ntp, an administrator) at a kernel-call boundary of the termination; the
        # grace period is a duration, not a date
        h['clock'] = [rnd.choice([1, 2, 3, 5, 8, 12, 20, 30]), rnd.choice([-3600.0, 3600.0, -5.0, 5.0, -0.5, 86400.0])]
    if setvia:
        # configure stop_signal / graceful_timeout through `set` instead of the constructor
        w2 = dict(w)
        w2['stop_signal'] = 15 if sig != 15 else 2
        w2['graceful_timeout'] = 5.0
        h['watchers'] = [w2]
        h['steps'] = [['call', 'set', {'name': 'a', 'waiting': True,
                                       'options': {'stop_signal': sig, 'graceful_timeout': gt}}]]
        h['expect'] = {'sig': sig, 'gt': gt}
    return h


def live_case(spec, res):
    """the same rules judged on the kernel's own record: a real circusd under strace"""
    from vlib import livehist
    rnd = rng_for(spec['seed'], 'C03-live', spec['idx'])
    ls = livehist.gen_spec(rnd, nsteps=5)
    rec = livehist.run(ls)
    if rec['problem']:
        res.inconclusive.append('live: ' + rec['problem'][:200])
        return
    livehist.judge_kill_timing(rec, res, ls)
    res.obs['live_daemons'] += 1
    res.nontrivial(repr(('live', [(w['kind'], w['stop_signal'], w['gt']) for w in ls['watchers']], ls['steps'])))
    res.sample = {'live': True, 'watchers': ls['watchers'], 'steps': ls['steps'], 'daemon_kill_calls': len(rec['kills'])}


def run_case(spec):
    res = CaseResult()
    if spec.get('kind') == 'live':
        live_case(spec, res)
        for v in res.viol:
            v['spec'] = spec
        return res
    if 'watchers' in spec:
        run_history(spec, res)
        return res
    for v in range(spec.get('variants', 1)):
        run_history(materialise(spec, v), res)
    return res


def run_history(h, res):
    w = simhist.new_world(h)
    nv = len(res.viol)
    try:
        w.run(lambda: _history(w, h, res))
        for v in res.viol[nv:]:
            v['spec'] = h
        if w.breach():
            res.inconclusive.append('containment breach')
    finally:
        w.close()


def _expand_kid_beh(world):
    # '*' in a child's behaviour table means every catchable signal
    for p in world.kernel.procs.values():
        if '*' in p.beh:
            v = tuple(p.beh.pop('*'))
            for s in range(1, 65):
                if s not in (9, 19):
                    p.beh.setdefault(s, v)


@gen.coroutine
def _history(w, h, res):
    import circus.watcher
    circus.watcher.randint = lambda a, b: a      # max_age variance: deterministic
    k = w.kernel
    conf = h['watchers'][0]
    yield simhist.boot(w, h)
    r = simhist.Runner(w, h)
    yield r.run_steps()
    _expand_kid_beh(w)
    cause = h['cause']
    sig = h.get('expect', conf)['sig' if 'expect' in h else 'stop_signal']
    gt = h.get('expect', conf)['gt' if 'expect' in h else 'graceful_timeout']
    if cause == 'kill_over':
        from circus.util import to_signum
        sig = int(str(h['over']['signum']))
        gt = h['over']['graceful_timeout']
    if w.stalled is not None:
        return
    if cause != 'max_age':
        yield w.settle(60)
    l0 = len(k.log)
    t_cause = w.clock.now
    live0 = k.live(simhist.tag_of('a'))
    victims = None
    if h.get('clock'):
        coff, delta = h['clock']

        def step(kern, delta=delta):
            w.clock.wall_offset += delta
            res.obs['wall_clock_steps_during_termination'] += 1
        k.inject[k.calls + coff] = step
    if h.get('kid_death'):
        off, idx = h['kid_death']

        def vanish(kern, idx=idx):
            kids = sorted(c.pid for c in kern.procs.values() if c.tag.startswith('kid:') and c.state == 'running')
            if kids:
                kern.schedule_death(kern.procs[kids[idx % len(kids)]], 0.0, 9, 'ext')
                res.obs['children_vanished_during_termination'] += 1
        prev = k.inject.get(k.calls + off)
        k.inject[k.calls + off] = vanish if prev is None else (lambda kern, a=prev, b=vanish: (a(kern), b(kern)))
    if cause == 'stop':
        w.req('stop', name='a', waiting=True)
    elif cause == 'restart':
        w.req('restart', name='a', waiting=True)
    elif cause == 'restart_x5':
        for _ in range(5):
            yield w.call('restart', name='a', waiting=True)
            yield w.settle(60)
            if w.stalled is not None:
                break
    elif cause == 'decr':
        w.req('decr', name='a', nb=1, waiting=True)
    elif cause == 'reload':
        w.req('reload', name='a', waiting=True)
    elif cause == 'reloadseq':
        w.req('reload', name='a', sequential=True, waiting=True)
    elif cause == 'reloadterm':
        w.req('reload', name='a', graceful=False, waiting=True)
    elif cause in ('kill', 'kill_over'):
        w.req('kill', name='a', waiting=True, **h['over'])
    elif cause.startswith('kill_then_'):
        w.req('kill', name='a')
        yield w.advance(min(0.05, gt / 2.0) if gt > 0 else 0)
        second = cause[len('kill_then_'):]
        if second == 'decr':
            w.req('decr', name='a', nb=1, waiting=True)
        elif second == 'set0':
            w.req('set', name='a', options={'numprocesses': 0}, waiting=True)
        elif second == 'kill':
            w.req('kill', name='a', waiting=True)
        elif second == 'incr':
            w.req('incr', name='a', nb=1, waiting=True)
    elif cause == 'kill_pid':
        victims = [live0[0]]
        w.req('kill', name='a', pid=live0[0], waiting=True)
    elif cause == 'rm':
        w.req('rm', name='a', waiting=True)
    elif cause == 'quit':
        w.req('quit', waiting=True)
    elif cause == 'max_age':
        yield w.advance(1.2)
        l0 = len(k.log)
        yield w.check()
    took = yield w.settle(200.0)
    if w.stalled is not None:
        res.obs['stalled(C05 owns)'] += 1
        return
    yield w.advance(0.5)
    # ---- cut the ledger into episodes
    eps = {}
    for e in k.log[l0:]:
        if e[1] == 'signal' and e[4] == 'circus':
            eps.setdefault(e[2], []).append((e[0], e[3], e[5]))
    workers = {pid: p for pid, p in k.procs.items() if p.spawn_no}
    # every worker the request terminates gets the stop signal in the first place
    if cause in ('stop', 'restart', 'rm', 'quit', 'kill', 'kill_over', 'reloadterm', 'reload', 'reloadseq', 'kill_pid',
                 'restart_x5') and w.stalled is None:
        for pid in (victims if victims is not None else live0):
            p_ = k.procs[pid]
            if pid not in eps and (p_.exit_t is None or p_.exit_t > t_cause + EPS) and not (p_.cause or '').startswith(('self', 'ext')):
                res.violation('C03/no-stop-signal-sent:' + cause, 'worker %d was running when the %s request arrived and '
                              'was never sent any signal by the daemon (stop signal %d); it is %s now'
                              % (pid, cause, sig, p_.state))
    judged = 0
    for pid, sigs in eps.items():
        p = k.procs[pid]
        if not p.spawn_no:
            continue            # a child: judged through its parent's episode (R5)
        judged += 1
        t0 = sigs[0][0]
        res.obs['episodes'] += 1
        res.obs['episodes:' + cause] += 1
        first = sigs[0][1]
        if first != sig:
            res.violation('C03/first-signal:' + cause, 'first signal sent to worker %d was %d, the designated stop '
                          'signal is %d' % (pid, first, sig), signals=[(round(t - EPOCH, 4), s) for t, s, _ in sigs])
        if sig == 9:
            continue
        kills = [(t, st) for t, s, st in sigs if s == 9]
        exit_t = p.exit_t
        if kills:
            res.obs['episodes_with_sigkill'] += 1
            res.hist['sigkill_lateness_in_steps'][round((kills[0][0] - t0 - gt) / STEP, 1)] += 1
        for t, st in kills:
            if t < t0 + gt - EPS:
                res.violation('C03/early-sigkill:' + cause, 'SIGKILL sent to worker %d %.3fs after the stop signal, '
                              'graceful_timeout is %s' % (pid, t - t0, gt), react=conf['beh'], state=st)
                break
        if kills and exit_t is not None and exit_t <= t0 + gt - STEP - EPS and exit_t < kills[0][0]:
            res.violation('C03/sigkill-after-exit:' + cause, 'worker %d exited %.3fs after the stop signal (in time, '
                          'graceful_timeout %s) yet SIGKILL was sent at +%.3fs' % (pid, exit_t - t0, gt,
                                                                                   kills[0][0] - t0))
        elif kills and exit_t is not None and exit_t < kills[0][0]:
            res.obs['tolerated_sigkill_to_zombie_in_last_step'] += 1
        deadline = t0 + gt + STEP + EPS
        alive_at_deadline = exit_t is None or exit_t > deadline
        if alive_at_deadline:
            res.obs['episodes_worker_outlived_deadline'] += 1
            if not kills or kills[0][0] > deadline:
                res.violation('C03/late-or-missing-sigkill:' + cause, 'worker %d still running %.3fs after the stop '
                              'signal (graceful_timeout %s + one polling step) and no SIGKILL had been sent (first '
                              'SIGKILL: %s)' % (pid, deadline - t0, gt,
                                                ('+%.3f' % (kills[0][0] - t0)) if kills else 'never'))
        # R5: children
        if conf.get('stop_children'):
            kids = [c for c in k.procs.values() if c.orig_ppid == pid and c.created <= t0
                    and not (c.popen_kw or {}).get('forked_on_signal')      # forked in answer to the stop signal
                    and (c.exit_t is None or c.exit_t > t0) and c.cause != 'ext']       # not the vanished child
            for c in kids:
                res.obs['children_judged'] += 1
                got = [s for (t, s, snd) in c.signals if snd == 'circus' and abs(t - t0) < EPS]
                if sig not in got:
                    inst = exit_t is not None and exit_t - t0 < EPS
                    res.violation('C03/child-missed-stop-signal' + ('[parent-died-at-once]' if inst else ':' + cause),
                                  'stop_children is set but child %d of worker %d did not get signal %d with its '
                                  'parent (worker reaction %s, child got %s)'
                                  % (c.pid, pid, sig, conf['beh'], c.signals and [(round(t - t0, 3), s) for t, s, _ in c.signals]),
                                  worker_exit=None if exit_t is None else round(exit_t - t0, 4))
                # "the final SIGKILL reaches them too": judged when the worker itself was still alive at the
                # escalation and was killed by it (a worker that died by itself at the deadline is a zombie
                # without children by then: tolerated class, like the SIGKILL call to the zombie)
                if kills and p.cause == 'circus:9':
                    tk = kills[0][0]
                    if c.exit_t is None or c.exit_t > tk:
                        res.obs['children_alive_at_escalation'] += 1
                        gotk = [s for (t, s, snd) in c.signals if snd == 'circus' and s == 9 and abs(t - tk) < EPS]
                        if not gotk:
                            inst = exit_t is not None and exit_t - tk < 0.001
                            res.violation('C03/child-missed-sigkill' + ('[parent-died-at-once]' if inst else ':' + cause),
                                          'worker %d was escalated to SIGKILL at +%.3fs but its child %d (alive) was '
                                          'not sent SIGKILL (kill latency %s)' % (pid, tk - t0, c.pid, h['kill_latency']))
        # ... and so are the descendants that came later or sit deeper: everything below the worker that is running
        # (with every process in between running) when the worker is escalated
        if conf.get('stop_children') and kills and p.cause == 'circus:9':
            tk = kills[0][0]

            def running_at(c, t):
                return c.created < t - EPS and (c.exit_t is None or c.exit_t > t)
            below, frontier = [], [pid]
            while frontier:
                x = frontier.pop()
                for c in k.procs.values():
                    if c.orig_ppid == x and c.pid != pid and running_at(c, tk) and c.cause != 'ext':
                        below.append(c)
                        frontier.append(c.pid)
            for c in below:
                late = c.created > t0 or bool((c.popen_kw or {}).get('forked_on_signal'))
                if c.orig_ppid == pid and not late:
                    continue                     # judged above
                res.obs['late_or_deep_descendants_alive_at_escalation'] += 1
                gotk = [s_ for (t, s_, snd) in c.signals if snd == 'circus' and s_ == 9 and abs(t - tk) < EPS]
                if not gotk:
                    res.violation('C03/descendant-missed-sigkill:' + ('forked-after-the-stop-signal' if late else 'grandchild'),
                                  'worker %d was escalated to SIGKILL at +%.3fs but its descendant %d (parent %d, created '
                                  '%+.3fs relative to the stop signal, running) was not sent SIGKILL'
                                  % (pid, tk - t0, c.pid, c.orig_ppid, c.created - t0))
    if judged:
        res.nontrivial(simhist.kernel_sig(w, [[cause]]))
        if res.sample is None:
            res.sample = {'watcher': conf, 'cause': cause, 'override': h['over'],
                          'episodes': {str(pid): [(round(t - EPOCH, 4), s, st) for t, s, st in v]
                                       for pid, v in list(eps.items())[:3]}}
    else:
        res.obs['histories_without_episode:' + cause] += 1


def starved(merged, tier):
    o = merged['obs']
    out = []
    if o.get('episodes', 0) < 500:
        out.append('only %d episodes' % o.get('episodes', 0))
    if o.get('episodes_with_sigkill', 0) < 100:
        out.append('escalation branch observed only %d times' % o.get('episodes_with_sigkill', 0))
    if o.get('children_judged', 0) < 20:
        out.append('stop_children clause judged on only %d children' % o.get('children_judged', 0))
    for c in CAUSES:
        if c == 'kill_then_incr':
            continue
        if not o.get('episodes:' + c):
            out.append('no episode for cause %s' % c)
    return out


def precheck():
    from vlib.calibrate import calibrate
    return calibrate()


def shard_env(i, n):
    """a quarter of the shards run the daemon code with DEBUG set in its environment (tracing decorators)"""
    return {'DEBUG': '1'} if i % 4 == 3 else None
