"""C07 — managed sockets reach every worker generation and are never rebound.

Engine LIVE (descriptors and inodes are real or nothing).  A real circusd under strace with 1-3
managed sockets; probe workers dump their argv and /proc/self/fd; over several worker generations
(external SIGKILL, restart, reload, sequential reload, incr, decr, reloadconfig) every worker must
hold, at the descriptor number substituted into its command line, a socket with the very inode
the daemon holds for that managed socket; the daemon's inode never changes, the address is bound
exactly once, connect() succeeds throughout, and a watcher without use_sockets inherits nothing.
"""
import json
import os
import re
import socket
import time

from vlib import live
from vlib.common import CaseResult, rng_for

ID = 'C07'
LEVEL = 'exploration'
RULE = ('one real daemon per case with 1-3 managed sockets (inet on port 0, unix path, optionally one so_reuseport '
        'socket) and 2-3 watchers referring to them through $(circus.sockets.NAME) / ((circus.sockets.NAME)) in cmd '
        'or args, plus one watcher without use_sockets; 6 (quick) / 10 (thorough) generations driven by external '
        'SIGKILL of all workers, restart, reload, sequential reload, incr, decr, reloadconfig of the unchanged '
        'file, reloadconfig after editing an option of one watcher section (the watcher is re-created), and a '
        'period in which process creation fails (working directory gone) followed by a start. non-trivial = a generation in which at least one new worker was inspected; distinct = (socket set, '
        'reference syntax, action sequence)')
ASSUMPTIONS = ['so_reuseport sockets are bound per worker by design: only "a listening socket at that descriptor" is '
               'checked for them', 'inode identity is read from /proc/<pid>/fd of the daemon and of each worker']
BUDGET = {'quick': 400, 'thorough': 2400}
MAX_SHARDS = 8
CASE_TIMEOUT = 200
ACTIONS = ['extkill', 'restart', 'reload', 'reloadseq', 'incr', 'decr', 'reloadconfig', 'extkill', 'reloadconfig-edit',
           'reloadconfig-edit', 'failspawn', 'failspawn', 'stop-sibling', 'stop-sibling']


def plan(tier, seed):
    n = 12 if tier == 'quick' else 60
    return ([{'seed': seed, 'idx': i, 'gens': 6 if tier == 'quick' else 10} for i in range(n)] +
            # a unix socket file left behind by an earlier daemon (no `replace`): start-up is refused, or the socket works
            [{'seed': seed, 'idx': 1000 + i, 'gens': 2, 'stale_unix': True} for i in range(1 if tier == 'quick' else 4)] +
            # `statsd = True`: the daemon's own circusd-stats worker inherits every managed socket; it is restarted, killed
            # and stopped between the generations, and the sockets must stay the daemon's listening ones throughout
            [{'seed': seed, 'idx': 2000 + i, 'gens': 4 if tier == 'quick' else 8, 'statsd': True}
             for i in range(2 if tier == 'quick' else 8)] +
            # seed-independent: stdin_socket names a socket whose section name has upper-case letters
            [{'seed': seed, 'idx': 3000, 'gens': 2 if tier == 'quick' else 6, 'conf': {
                'sockets': [{'name': 'W3b-x', 'kind': 'inet', 'explicit': False}, {'name': 'ux', 'kind': 'unix'}],
                'watchers': [{'name': 'w0', 'sock': 'ux', 'ref': '$(circus.sockets.ux)', 'where': 'args', 'np': 1},
                             {'name': 'w1', 'sock': 'W3b-x', 'ref': '((circus.sockets.W3b-x))', 'where': 'cmd', 'np': 2}],
                'stdin_watcher': True}}])


def build(rnd):
    socks = [{'name': rnd.choice(['web', 'web', 'prise_été', 'W3b-x']), 'kind': 'inet', 'explicit': rnd.random() < .5}]
    if rnd.random() < .8:
        socks.append({'name': rnd.choice(['ux', 'ux', 'ünix']), 'kind': 'unix'})
    if rnd.random() < .4:
        socks.append({'name': 'rp', 'kind': 'inet', 'reuseport': True})
    ws = []
    for i in range(rnd.randint(2, 3)):
        s = rnd.choice(socks)
        syntax = rnd.choice(['$(circus.sockets.%s)', '((circus.sockets.%s))', '$(CIRCUS.SOCKETS.%s)'])
        ws.append({'name': 'w%d' % i, 'sock': s['name'], 'ref': syntax % s['name'],
                   'where': rnd.choice(['cmd', 'args']), 'np': rnd.randint(1, 2)})
        if len(socks) > 1 and rnd.random() < .4:
            # a command line that names two managed sockets
            s2 = rnd.choice([x for x in socks if x['name'] != s['name']])
            ws[-1]['sock2'] = s2['name']
            ws[-1]['ref2'] = rnd.choice(['$(circus.sockets.%s)', '((circus.sockets.%s))']) % s2['name']
    if rnd.random() < .5:
        # two watchers sharing one socket
        for k_ in ('sock', 'ref'):
            ws[1][k_] = ws[0][k_]
    return {'sockets': socks, 'watchers': ws, 'stdin_watcher': rnd.random() < .5}


def fname(sockname):
    """ASCII file name of a unix socket (the section name may be anything; strace escapes non-ASCII bytes)"""
    return 'u' + ''.join(c if c.isascii() and c.isalnum() else '_' for c in sockname)


def ini_for(d, conf):
    txt = d.header(check_delay=0.3, extra='statsd = True\nstats_endpoint = ipc://@DIR@/stats\n' if conf.get('statsd') else '')
    for s in conf['sockets']:
        if s['kind'] == 'unix':
            txt += '[socket:%s]\npath = @DIR@/%s.sock\n\n' % (s['name'], fname(s['name']))
        else:
            txt += '[socket:%s]\nhost = 127.0.0.1\nport = 0\n%s%s\n' % (
                s['name'], 'so_reuseport = True\n' if s.get('reuseport') else '',
                'proto = tcp\nbacklog = 64\n' if s.get('explicit') else '')
    for w in conf['watchers']:
        base = live.worker_cmd({'log': '@LOG@', 'dump': True, 'tagw': w['name']})
        refs = '--fd %s' % w['ref'] + (' --fd2 %s' % w['ref2'] if w.get('ref2') else '')
        if w['where'] == 'cmd':
            txt += '[watcher:%s]\ncmd = %s %s\n' % (w['name'], base, refs)
        else:
            txt += '[watcher:%s]\ncmd = %s\nargs = %s\n' % (w['name'], base, refs)
        txt += ('use_sockets = True\nnumprocesses = %d\ngraceful_timeout = 1\ncopy_env = True\nworking_dir = @DIR@/wd_%s\n\n'
                % (w['np'], w['name']))
    txt += ('[watcher:plain]\ncmd = %s\nnumprocesses = 1\ngraceful_timeout = 1\ncopy_env = True\n\n'
            % live.worker_cmd({'log': '@LOG@', 'dump': True, 'tagw': 'plain'}))
    if conf.get('stdin_watcher'):
        # stdin_socket: the worker gets that socket as its standard input -- and nothing else of the daemon's
        txt += ('[watcher:sin]\ncmd = %s\nnumprocesses = 1\ngraceful_timeout = 1\ncopy_env = True\nstdin_socket = %s\n\n'
                % (live.worker_cmd({'log': '@LOG@', 'dump': True, 'tagw': 'sin'}), conf['sockets'][0]['name']))
        # ... and an inetd-style worker that is also told the descriptor number of that same socket
        txt += ('[watcher:sinu]\ncmd = %s --fd $(circus.sockets.%s)\nnumprocesses = 1\ngraceful_timeout = 1\ncopy_env = True\n'
                'use_sockets = True\nstdin_socket = %s\n\n'
                % (live.worker_cmd({'log': '@LOG@', 'dump': True, 'tagw': 'sinu'}), conf['sockets'][0]['name'],
                   conf['sockets'][0]['name']))
    return txt


def run_case(spec):
    res = CaseResult()
    rnd = rng_for(spec['seed'], 'C07', spec['idx'])
    conf = spec.get('conf') or build(rnd)
    if spec.get('statsd'):
        conf['statsd'] = True
    actions = spec.get('actions') or [rnd.choice(ACTIONS + ['stats-restart', 'stats-term', 'stats-stopstart'] * 4
                                                 if conf.get('statsd') else ACTIONS) for _ in range(spec['gens'])]
    if conf.get('statsd') and not spec.get('actions') and not any(a.startswith('stats-') for a in actions):
        actions[0] = 'stats-restart'
    d = live.Daemon('', strace=True)
    d.ini = ini_for(d, conf).replace('@DIR@', d.dir).replace('@LOG@', d.logdir)
    with open(d.ini_path, 'w', encoding='utf8') as f:
        f.write(d.ini)
    for w in conf['watchers']:
        os.mkdir(os.path.join(d.dir, 'wd_%s' % w['name']))
    if spec.get('stale_unix'):
        if not any(s_['kind'] == 'unix' for s_ in conf['sockets']):
            conf['sockets'].append({'name': 'ux', 'kind': 'unix'})
            d.ini = ini_for(d, conf).replace('@DIR@', d.dir).replace('@LOG@', d.logdir)
            with open(d.ini_path, 'w', encoding='utf8') as f:
                f.write(d.ini)
        for s_ in conf['sockets']:
            if s_['kind'] == 'unix':
                st = socket.socket(socket.AF_UNIX)
                st.bind(os.path.join(d.dir, '%s.sock' % fname(s_['name'])))
                st.close()
        conf['stale_unix'] = True
    nv = len(res.viol)
    try:
        _case(d, conf, actions, rnd, res)
    finally:
        for v in res.viol[nv:]:
            v['spec'] = dict(spec, conf=conf, actions=actions)
        d.cleanup()
    return res


def sock_inode(pid, fd):
    try:
        t = os.readlink('/proc/%d/fd/%d' % (pid, fd))
    except OSError:
        return None
    m = re.match(r'socket:\[(\d+)\]', t)
    return m.group(1) if m else None


def wait_dumps(d, pids, timeout=10.0):
    t0 = time.time()
    out = {}
    while time.time() - t0 < timeout:
        for p in pids:
            if p in out:
                continue
            fn = os.path.join(d.logdir, '%d.dump.json' % p)
            if os.path.exists(fn):
                try:
                    out[p] = json.load(open(fn))
                except ValueError:
                    pass
        if len(out) == len(pids):
            break
        time.sleep(0.05)
    return out


def _case(d, conf, actions, rnd, res):
    d.start()
    total = sum(w['np'] for w in conf['watchers']) + 1 + (2 if conf.get('stdin_watcher') else 0)
    if conf.get('stale_unix'):
        t_end = time.time() + 10
        while time.time() < t_end and d.proc.poll() is None and not os.path.exists(os.path.join(d.dir, 'ctl')):
            time.sleep(0.05)
        if d.proc.poll() is not None or not d.wait_ready(5):
            res.obs['start_refused_over_a_stale_unix_socket_file'] += 1
            res.nontrivial('stale-unix:refused')
            res.sample = {'case': 'stale unix socket file, no replace', 'outcome': 'circusd refused to start',
                          'output_tail': d.output()[-200:]}
            return
        res.obs['started_over_a_stale_unix_socket_file'] += 1
    if not d.wait_ready(20) or not d.workers_up(total, 15):
        if conf.get('stdin_watcher') and d.proc.poll() is None and 'Exception occurred in preexec_fn' in d.output():
            # the daemon answers, and the worker of a stdin_socket watcher cannot be created: the socket named exactly
            # as its section is never handed over (socket names from a file are stored lower-cased)
            try:
                none = [w_ for w_ in ('sin', 'sinu') if d.call('list', name=w_, timeout=5).get('pids') == []]
            except Exception:
                none = []
            if none:
                res.violation('C07/stdin-socket-watcher-cannot-spawn',
                              'stdin_socket = %s: the watcher(s) %s never get a worker, process creation fails in the '
                              'child before exec (%s)' % (conf['sockets'][0]['name'], none, d.output()[-160:]))
                return
        res.inconclusive.append('daemon not ready: %s' % d.output()[-300:])
        return
    ls = d.call('listsockets').get('sockets', [])
    byname = {s['name'].lower(): s for s in ls}        # socket names are case-insensitive (stored lower-cased)
    managed = {}
    for s in conf['sockets']:
        info = byname.get(s['name'].lower())
        if info is None:
            res.violation('C07/socket-not-listed', 'managed socket %s missing from listsockets %s' % (s['name'], ls))
            return
        managed[s['name']] = {'fd': info['fd'], 'inode': sock_inode(d.pid, info['fd']), 'conf': s, 'info': info}
    inspected = set()

    def connect_ok(name):
        m = managed[name]
        try:
            if m['conf']['kind'] == 'unix':
                c = socket.socket(socket.AF_UNIX)
                c.settimeout(2)
                c.connect(os.path.join(d.dir, '%s.sock' % fname(name)))
            else:
                port = _port_of(d.pid, m['fd'])
                if port is None:
                    return 'the daemon no longer holds a listening inet socket at descriptor %d' % m['fd']
                c = socket.socket()
                c.settimeout(2)
                c.connect(('127.0.0.1', port))
            c.close()
            return True
        except OSError as e:
            return str(e)

    def inspect(gen_label):
        new = 0
        s0 = conf['sockets'][0]['name']
        for w in conf['watchers'] + [{'name': 'plain', 'sock': None}] + (
                [{'name': 'sin', 'sock': None},
                 {'name': 'sinu', 'sock': s0, 'ref': '$(circus.sockets.%s)' % s0, 'stdin': True}]
                if conf.get('stdin_watcher') else []):
            r = d.call('list', name=w['name'])
            pids = r.get('pids', [])
            dumps = wait_dumps(d, [p for p in pids if p not in inspected])
            for p, dump in dumps.items():
                inspected.add(p)
                new += 1
                res.obs['workers_inspected'] += 1
                fds = dump['fds']
                if w['sock'] is None:
                    extra = {fd: t for fd, t in fds.items() if int(fd) > 2 and not t.startswith('/proc/')}
                    socks = {fd: t for fd, t in extra.items() if t.startswith('socket:')}
                    if socks:
                        res.violation('C07/plain-watcher-inherits-descriptor', 'worker %d of the watcher without '
                                      'use_sockets holds %s (%s)' % (p, socks, gen_label))
                    continue
                argv = dump['argv']
                if w.get('stdin') and not managed[w['sock']]['conf'].get('reuseport'):
                    t0_ = fds.get('0')
                    res.obs['stdin_socket_checks'] += 1
                    if t0_ is None or t0_ != 'socket:[%s]' % managed[w['sock']]['inode']:
                        res.violation('C07/stdin-is-not-the-daemons-socket', 'worker %d of the stdin_socket watcher has %r as '
                                      'standard input, the daemon bound inode %s (%s)'
                                      % (p, t0_, managed[w['sock']]['inode'], gen_label))
                for flag, sockname, ref in (('--fd', w['sock'], w['ref']), ('--fd2', w.get('sock2'), w.get('ref2'))):
                    if sockname is None:
                        continue
                    try:
                        fdn = argv[argv.index(flag) + 1]
                    except (ValueError, IndexError):
                        fdn = None
                    m = managed[sockname]
                    if fdn is None or not fdn.isdigit():
                        res.violation('C07/descriptor-not-substituted', 'worker %d argv %s: %s was not replaced by a '
                                      'descriptor number (%s)' % (p, argv[3:], ref, gen_label))
                        continue
                    tgt = fds.get(fdn)
                    if tgt is None or not tgt.startswith('socket:'):
                        res.violation('C07/descriptor-not-a-socket', 'worker %d was told %s %s but that descriptor is %r '
                                      '(%s)' % (p, flag, fdn, tgt, gen_label))
                        continue
                    res.obs['descriptor_checks'] += 1
                    if flag == '--fd2':
                        res.obs['second_socket_checks'] += 1
                    if m['conf'].get('reuseport'):
                        res.obs['reuseport_workers(own socket by design)'] += 1
                        continue
                    ino = re.match(r'socket:\[(\d+)\]', tgt).group(1)
                    if ino != m['inode']:
                        res.violation('C07/worker-socket-is-not-the-daemons', 'worker %d descriptor %s is socket inode %s, the '
                                      'daemon bound inode %s for %s (%s)' % (p, fdn, ino, m['inode'], sockname, gen_label))
        for name, m in managed.items():
            now = sock_inode(d.pid, m['fd'])
            if now != m['inode']:
                res.violation('C07/daemon-socket-changed', 'managed socket %s: daemon fd %d was inode %s, now %s (%s)'
                              % (name, m['fd'], m['inode'], now, gen_label))
            if not m['conf'].get('reuseport'):
                ok = connect_ok(name)
                res.obs['connects'] += 1
                if ok is not True:
                    res.violation('C07/connect-refused', 'connect() to managed socket %s failed: %s (%s)' % (name, ok, gen_label))
        return new
    inspect('generation 0')
    done = []
    for g, act in enumerate(actions, 1):
        wn = rnd.choice(conf['watchers'])['name']
        done.append((act, wn))
        if act == 'extkill':
            for p in d.call('list', name=wn).get('pids', []):
                try:
                    os.kill(p, 9)
                except OSError:
                    pass
            time.sleep(0.8)
        elif act.startswith('stats-'):
            # the circusd-stats worker (a use_sockets watcher of the daemon's own making) goes away and comes back; then
            # the chosen watcher gets a new generation, which must find the same listening sockets
            before = d.call('list', name='circusd-stats').get('pids', [])
            if act == 'stats-restart':
                d.call('restart', name='circusd-stats', waiting=True, timeout=20)
            elif act == 'stats-stopstart':
                d.call('stop', name='circusd-stats', waiting=True, timeout=20)
                d.call('start', name='circusd-stats', waiting=True, timeout=20)
            else:
                for p in before:
                    try:
                        os.kill(p, 15)
                    except OSError:
                        pass
                time.sleep(1.0)
            after = d.call('list', name='circusd-stats').get('pids', [])
            res.obs['stats_worker_replaced'] += int(bool(before) and bool(after) and set(before) != set(after))
            time.sleep(0.3)
            inspect('generation %d: after %s' % (g, act))
            d.call('restart', name=wn, waiting=True, timeout=15)
        elif act == 'restart':
            d.call('restart', name=wn, waiting=True, timeout=15)
        elif act == 'reload':
            d.call('reload', name=wn, waiting=True, timeout=15)
        elif act == 'reloadseq':
            d.call('reload', name=wn, sequential=True, waiting=True, timeout=20)
        elif act == 'incr':
            d.call('incr', name=wn, waiting=True, timeout=15)
        elif act == 'decr':
            d.call('decr', name=wn, waiting=True, timeout=15)
        elif act == 'stop-sibling':
            # another watcher (sharing the socket when there is one) is stopped while this one gets new workers
            sib = [x for x in conf['watchers'] if x['name'] != wn]
            same = [x for x in sib if x['sock'] == next(y for y in conf['watchers'] if y['name'] == wn)['sock']]
            w2 = rnd.choice(same or sib)['name']
            d.call('stop', name=w2, waiting=True, timeout=15)
            for p in d.call('list', name=wn).get('pids', []):
                try:
                    os.kill(p, 9)
                except OSError:
                    pass
            time.sleep(0.8)
            d.call('incr', name=wn, waiting=True, timeout=15)
            time.sleep(0.4)
            inspect('generation %d: %s respawned while %s is stopped' % (g, wn, w2))
            d.call('decr', name=wn, waiting=True, timeout=15)
            d.call('start', name=w2, waiting=True, timeout=15)
            res.obs['sibling_stopped_episodes'] += 1
        elif act == 'failspawn':
            # process creation fails for a while (the working directory is gone): every retry of the respawn
            # raises in the daemon; afterwards the directory is back and the watcher is started again
            wd = os.path.join(d.dir, 'wd_%s' % wn)
            os.rename(wd, wd + '.away')
            for p in d.call('list', name=wn).get('pids', []):
                try:
                    os.kill(p, 9)
                except OSError:
                    pass
            t_end = time.time() + 6
            while time.time() < t_end and d.call('status', name=wn).get('status') != 'stopped':
                time.sleep(0.1)
            res.obs['failed_spawn_episodes'] += int(d.call('status', name=wn).get('status') == 'stopped')
            os.rename(wd + '.away', wd)
            d.call('start', name=wn, waiting=True, timeout=15)
        elif act == 'reloadconfig':
            d.call('reloadconfig', waiting=True, timeout=15)
        elif act == 'reloadconfig-edit':
            # edit that watcher's section (another option than numprocesses): it is re-created by the reload
            txt = open(d.ini_path, encoding='utf8').read()
            head, sep, tail = txt.partition('[watcher:%s]' % wn)
            if 'graceful_timeout = 1\n' in tail.split('[watcher:', 1)[0] or 'graceful_timeout = 1\n' in tail[:tail.find('\n\n') + 2]:
                tail = tail.replace('graceful_timeout = 1\n', 'graceful_timeout = 2\n', 1)
            else:
                tail = tail.replace('graceful_timeout = 2\n', 'graceful_timeout = 1\n', 1)
            with open(d.ini_path, 'w', encoding='utf8') as f:
                f.write(head + sep + tail)
            d.call('reloadconfig', waiting=True, timeout=20)
        time.sleep(0.4)
        n = inspect('generation %d after %s %s' % (g, act, wn))
        if n:
            res.nontrivial(repr((sorted(s['name'] + s['kind'] for s in conf['sockets']), done[-3:])))
    # exactly one bind per managed (non-reuseport) address, from the kernel's own record
    binds = [ln for ln in d.strace_lines() if ' bind(' in ln]
    for name, m in managed.items():
        if m['conf'].get('reuseport'):
            continue
        if m['conf']['kind'] == 'unix':
            mine = [ln for ln in binds if '%s.sock' % fname(name) in ln]
        else:
            mine = [ln for ln in binds if re.search(r'bind\(%d, \{sa_family=AF_INET, sin_port=htons\(0\)' % m['fd'], ln)]
        res.obs['bind_calls_seen'] += len(mine)
        if len(mine) != 1:
            res.violation('C07/address-bound-%d-times' % len(mine), 'strace shows %d bind() calls for managed socket %s: %s'
                          % (len(mine), name, mine[:3]))
    res.sample = {'sockets': conf['sockets'], 'watchers': conf['watchers'], 'actions': done,
                  'workers_inspected': len(inspected)}


def _port_of(pid, fd):
    try:
        ino = sock_inode(pid, fd)
        for ln in open('/proc/net/tcp').read().splitlines()[1:]:
            f = ln.split()
            if f[9] == ino:
                return int(f[1].split(':')[1], 16)
    except Exception:
        return None


def starved(merged, tier):
    o = merged['obs']
    out = []
    if o.get('descriptor_checks', 0) < 20:
        out.append('only %d worker descriptors checked' % o.get('descriptor_checks', 0))
    if o.get('bind_calls_seen', 0) < 3:
        out.append('strace bind() record not seen (%d)' % o.get('bind_calls_seen', 0))
    if o.get('stats_worker_replaced', 0) < 1:
        out.append('the circusd-stats worker was never seen replaced')
    return out
