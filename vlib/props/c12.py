"""C12 — reloadconfig converges to the file and disturbs only what changed.

Engine SIM with real files and the real get_config.  A chain of configuration versions is
produced by labelled edits; after each reloadconfig (waiting) + quiescence the daemon is compared
with a FRESH simulated daemon started on the same file, untouched watchers must keep their pids, a
numprocesses-only edit may only add/remove the difference, an unchanged file must cause no kernel
activity.
"""
import copy
import os
import shutil
import tempfile

from tornado import gen

from vlib import sim, simhist
from vlib.common import CaseResult, rng_for

ID = 'C12'
LEVEL = 'exploration'
RULE = ('chains of 2-8 configuration versions over watchers a, b, Web, dB (mixed-case names) produced by labelled edits: add / remove a '
        'watcher section, change numprocesses (including back to an earlier value), change cmd or args, change a '
        'global [env] variable or an [env:NAME] variable, add / remove / modify a documented option '
        '(graceful_timeout, warmup_delay, priority, max_retry, stop_signal, respawn, singleton...) or a free-form '
        'option, no-op rewrite (comment / blank lines / same text); [circus] fixed. non-trivial = a version whose '
        'reloadconfig was compared with a fresh daemon; distinct = sequence of edit labels')
ASSUMPTIONS = ['what a file means is taken from circus.config.get_config itself (C16 owns that); "effective section '
               'unchanged" = the watcher dict of get_config is equal between the two versions',
               'workers are obedient; no fault is injected here',
               'respawn=false is not generated: a numprocesses increase on such a watcher spawns nothing by '
               'documented design, which makes "same as a fresh start" ambiguous']
BUDGET = {'quick': 240, 'thorough': 1500}
NAMES = ['a', 'b', 'Web', 'dB']
DOC_OPTS = [('graceful_timeout', ['0.2', '0.5', '1']), ('warmup_delay', ['0', '1']), ('priority', ['0', '1', '5']),
            ('max_retry', ['3', '5']), ('stop_signal', ['TERM', 'INT', '10']),
            ('send_hup', ['true', 'false']), ('stop_children', ['true', 'false']), ('working_dir', ['/tmp', '/']),
            ('copy_env', ['true', 'false']), ('max_age', ['0']), ('autostart', ['false', 'true']), ('myopt', ['1', '2', 'x']), ('other_opt', ['y', 'z']),
            # hooks by dotted name, with and without the ignore-failure flag
            ('hooks.before_start', ['vlib.props.c12hooks.ok', 'vlib.props.c12hooks.ok, True', 'vlib.props.c12hooks.ok, False']),
            ('hooks.after_spawn', ['vlib.props.c12hooks.ok, True', 'vlib.props.c12hooks.ok']),
            ('stdout_stream.class', ['StdoutStream', 'FancyStdoutStream']), ('stderr_stream.class', ['StdoutStream'])]


def plan(tier, seed):
    n = 700 if tier == 'quick' else 20000
    return (HOOK_CORE + [{'seed': seed, 'idx': i} for i in range(n)] +
            [{'kind': 'live', 'seed': seed, 'idx': i} for i in range(3 if tier == 'quick' else 15)])


def _hook_versions(values):
    """a chain of files in which only the hook line of one watcher changes"""
    out = []
    for i, val in enumerate(values):
        sec = {'cmd': 'w_db', 'numprocesses': '2', 'graceful_timeout': '0.2'}
        if val is not None:
            sec['hooks.before_start'] = val
        out.append({'label': 'initial' if i == 0 else 'hook-line-only', 'model': {
            'env': {}, 'envs': {}, 'comments': [],
            'watchers': {'dB': sec, 'a': {'cmd': 'w_a', 'numprocesses': '1', 'graceful_timeout': '0.2'}}}})
    return out


_OK = 'vlib.props.c12hooks.ok'
# a seed-independent core: the ignore-failure flag of a hook raised, lowered, removed with the hook, and back
HOOK_CORE = [{'versions': _hook_versions(v)} for v in (
    [_OK + ', True', _OK, _OK + ', True', _OK + ', False'],
    [_OK, _OK + ', True', None, _OK],
    [None, _OK + ', True', _OK + ', False', None])]


def _removal_versions(opts):
    """options disappear from the section one at a time (nothing else changes)"""
    out = []
    keys = list(opts)
    for i in range(len(keys) + 1):
        sec = {'cmd': 'w_db', 'numprocesses': '2', 'graceful_timeout': '0.2'}
        sec.update({k_: opts[k_] for k_ in keys[i:]})
        out.append({'label': 'initial' if i == 0 else 'opt-remove', 'model': {
            'env': {}, 'envs': {}, 'comments': [],
            'watchers': {'dB': sec, 'a': {'cmd': 'w_a', 'numprocesses': '1', 'graceful_timeout': '0.2'}}}})
    return out


# ... and options without a default entry (free-form ones, max_retry, priority) removed line by line
HOOK_CORE += [{'versions': _removal_versions(o)} for o in (
    {'myopt': '1', 'other_opt': 'y', 'max_retry': '3'},
    {'priority': '5', 'myopt': 'x', 'stop_signal': 'INT'},
    {'hooks.after_spawn': _OK + ', True', 'other_opt': 'z'})]


CASE_TIMEOUT = 120


def live_case(spec, res):
    """reloadconfig on a real circusd started the way it is started in production: with command-line options next to
    the configuration file (they are not in the file, and must not make the file look changed)"""
    import re
    import time
    from vlib import live
    rnd = rng_for(spec['seed'], 'C12-live', spec['idx'])
    cli = [[], ['--log-level', 'debug'], ['--log-output', '@DIR@/daemon.log'],
           ['--log-level', 'warning', '--log-output', '@DIR@/daemon.log']][spec['idx'] % 4]
    in_file = rnd.choice(['', 'loglevel = info\n', 'debug = False\n'])
    d = live.Daemon('', strace=False, args=cli)
    np1 = rnd.choice([1, 2])

    def text(np_b, third, extra_opt):
        t = d.header(check_delay=0.5, extra=in_file)
        for name, np_, opt in (('wa', 2, ''), ('wb', np_b, extra_opt)):
            t += ('[watcher:%s]\ncmd = %s\nnumprocesses = %d\ngraceful_timeout = 0.5\ncopy_env = True\n%s\n'
                  % (name, live.worker_cmd({'log': '@LOG@', 'tagw': name}), np_, opt))
        if third:
            t += ('[watcher:wc]\ncmd = %s\nnumprocesses = 1\ngraceful_timeout = 0.5\ncopy_env = True\n\n'
                  % live.worker_cmd({'log': '@LOG@', 'tagw': 'wc'}))
        return t.replace('@DIR@', d.dir).replace('@LOG@', d.logdir)

    def table():
        out = {}
        for pid, state, stt in d.children():
            try:
                cmd = open('/proc/%d/cmdline' % pid, 'rb').read().decode('utf8', 'replace')
            except OSError:
                continue
            m = re.search(r'"tagw": "(\w+)"', cmd)
            if m and state != 'Z':
                out.setdefault(m.group(1), set()).add(pid)
        return out
    d.ini = text(np1, False, '')
    with open(d.ini_path, 'w') as f:
        f.write(d.ini)
    try:
        d.start()
        if not d.wait_ready(20) or not d.workers_up(2 + np1, 20):
            res.inconclusive.append('live: daemon not ready: ' + d.output()[-200:])
            return
        t0 = table()
        # (1) the file has not changed at all
        r = d.call('reloadconfig', waiting=True, timeout=30)
        time.sleep(0.7)
        t1 = table()
        res.obs['live_reloadconfig_judged'] += 1
        if r.get('status') != 'ok':
            res.violation('C12/live:reloadconfig-failed', 'reloadconfig of an unchanged file answered %s (command line %s)'
                          % (str(r)[:120], cli))
            return
        if t1 != t0:
            res.violation('C12/live:unchanged-file-disturbed-workers',
                          'reloadconfig of an unchanged file (circusd started with %s) replaced workers: before %s, after %s'
                          % (cli or 'no option', t0, t1))
            return
        # (2) one watcher edited (numprocesses, or an option), one added: only those change
        kind = rnd.choice(['numprocesses', 'option'])
        with open(d.ini_path, 'w') as f:
            f.write(text(np1 + 1 if kind == 'numprocesses' else np1, True, 'max_retry = 7\n' if kind == 'option' else ''))
        r = d.call('reloadconfig', waiting=True, timeout=30)
        time.sleep(1.2)
        t2 = table()
        res.obs['live_reloadconfig_judged'] += 1
        want_b = np1 + 1 if kind == 'numprocesses' else np1
        if r.get('status') != 'ok':
            res.violation('C12/live:reloadconfig-failed', 'reloadconfig answered %s' % str(r)[:120])
        elif t2.get('wa') != t0.get('wa'):
            res.violation('C12/live:unchanged-watcher-disturbed', 'watcher wa was not edited, its workers changed from %s to %s '
                          '(edit: %s of wb, wc added; command line %s)' % (t0.get('wa'), t2.get('wa'), kind, cli))
        elif len(t2.get('wb', ())) != want_b or len(t2.get('wc', ())) != 1:
            res.violation('C12/live:file-not-applied', 'after the edit (%s of wb -> %d, wc added) the daemon runs %s '
                          '(command line %s)' % (kind, want_b, {k: len(v) for k, v in t2.items()}, cli))
        res.nontrivial(repr(('live', tuple(cli), in_file, kind)))
        res.sample = res.sample or {'live': True, 'command_line': cli, 'edit': kind}
    finally:
        d.cleanup()


def render(model):
    out = ['[circus]', 'check_delay = -1', 'endpoint = ipc:///sim/ctrl', 'pubsub_endpoint = ipc:///sim/pub', '']
    for line in model.get('comments', []):
        out.append(line)
    if model['env']:
        out.append('[env]')
        out += ['%s = %s' % kv for kv in model['env'].items()]
        out.append('')
    for n, sec in model['watchers'].items():
        out.append('[watcher:%s]' % n)
        out += ['%s = %s' % kv for kv in sec.items()]
        out.append('')
    for n, env in model['envs'].items():
        if env:
            out.append('[env:%s]' % n)
            out += ['%s = %s' % kv for kv in env.items()]
            out.append('')
    return '\n'.join(out) + '\n'


MISSING = 'w_missing_zz'


def initial(rnd):
    m = {'env': {}, 'watchers': {}, 'envs': {}, 'comments': []}
    for n in rnd.sample(NAMES, rnd.randint(1, 3)):
        m['watchers'][n] = {'cmd': simhist.tag_of(n), 'numprocesses': str(rnd.randint(1, 3)), 'graceful_timeout': '0.2'}
    if rnd.random() < .4:
        m['env']['GLOBALV'] = 'g0'
    return m


def edit(rnd, m, history):
    """apply one labelled edit in place; return the label"""
    m = m
    present = list(m['watchers'])
    absent = [n for n in NAMES if n not in present]
    kinds = ['numprocesses', 'numprocesses', 'numprocesses-revert', 'cmd', 'args', 'env-global', 'env-named',
             'opt-add', 'opt-remove', 'opt-modify', 'noop', 'noop', 'cmd-break']
    broken = [x for x in present if m['watchers'][x]['cmd'] == MISSING]
    if broken:
        kinds += ['cmd-repair'] * 4
    if absent:
        kinds += ['add-watcher'] * 2
    if len(present) > 1:
        kinds += ['remove-watcher']
    k = rnd.choice(kinds)
    n = rnd.choice(present)
    sec = m['watchers'][n]
    if k == 'add-watcher':
        x = rnd.choice(absent)
        m['watchers'][x] = {'cmd': simhist.tag_of(x), 'numprocesses': str(rnd.randint(1, 3)), 'graceful_timeout': '0.2'}
        return 'add-watcher'
    if k == 'remove-watcher':
        del m['watchers'][n]
        m['envs'].pop(n, None)
        return 'remove-watcher'
    if k == 'numprocesses':
        old = sec['numprocesses']
        sec['numprocesses'] = str(rnd.choice([x for x in (0, 1, 2, 3, 4) if str(x) != old]))
        return 'numprocesses'
    if k == 'numprocesses-revert':
        prev = [h['watchers'][n]['numprocesses'] for h in history if n in h['watchers']
                and h['watchers'][n]['numprocesses'] != sec['numprocesses']]
        if not prev:
            sec['numprocesses'] = str(int(sec['numprocesses']) % 4 + 1)
            return 'numprocesses'
        sec['numprocesses'] = prev[-1]
        return 'numprocesses-revert'
    if k == 'cmd-break':
        # a program that does not exist: the watcher gives up after max_retry attempts and stops itself
        sec['cmd'] = MISSING
        sec['max_retry'] = '1'
        return 'cmd-break'
    if k == 'cmd-repair':
        n = rnd.choice(broken)
        m['watchers'][n]['cmd'] = simhist.tag_of(n)
        return 'cmd-repair'
    if k == 'cmd':
        sec['cmd'] = simhist.tag_of(n) if sec['cmd'] != simhist.tag_of(n) else simhist.tag_of(n) + ' --v2'
        return 'cmd'
    if k == 'args':
        if 'args' in sec and rnd.random() < .4:
            del sec['args']
        else:
            sec['args'] = '--x %d' % rnd.randint(0, 3)
        return 'args'
    if k == 'env-global':
        if 'GLOBALV' in m['env'] and rnd.random() < .3:
            del m['env']['GLOBALV']
        else:
            m['env']['GLOBALV'] = rnd.choice(['g%d', 'g%d', '/opt/g%d/bin:$PATH']) % rnd.randint(0, 3)
        return 'env-global'
    if k == 'env-named':
        e = m['envs'].setdefault(n, {})
        if 'NAMEDV' in e and rnd.random() < .3:
            del e['NAMEDV']
        else:
            e['NAMEDV'] = rnd.choice(['n%d', 'n%d', '/opt/n%d/bin:$PATH']) % rnd.randint(0, 3)
        return 'env-named'
    if k == 'opt-add':
        cand = [(o, v) for o, v in DOC_OPTS if o not in sec]
        if cand:
            o, vs = rnd.choice(cand)
            sec[o] = rnd.choice(vs)
            return 'opt-add:' + ('freeform' if o in ('myopt', 'other_opt') else 'documented')
        return 'noop'
    if k == 'opt-remove':
        cand = [o for o in sec if o not in ('cmd', 'numprocesses')]
        if cand:
            o = rnd.choice(cand)
            del sec[o]
            return 'opt-remove'
        return 'noop'
    if k == 'opt-modify':
        cand = [(o, vs) for o, vs in DOC_OPTS if o in sec and len(vs) > 1]
        if cand:
            o, vs = rnd.choice(cand)
            sec[o] = rnd.choice([v for v in vs if v != sec[o]])
            return 'opt-modify'
        return 'noop'
    m['comments'] = ['# rewritten %d' % rnd.randint(0, 99), ''] if rnd.random() < .7 else m['comments']
    return 'noop'


def run_case(spec):
    res = CaseResult()
    if spec.get('kind') == 'live':
        live_case(spec, res)
        for v in res.viol:
            v['spec'] = spec
        return res
    if 'versions' in spec:
        versions = spec['versions']
    else:
        rnd = rng_for(spec['seed'], 'C12', spec['idx'])
        m = initial(rnd)
        versions = [{'label': 'initial', 'model': copy.deepcopy(m)}]
        for _ in range(rnd.randint(1, 7)):
            lab = edit(rnd, m, [v['model'] for v in versions])
            versions.append({'label': lab, 'model': copy.deepcopy(m)})
        rk = rng_for(spec['seed'], 'C12-kill', spec['idx'])
        for v in versions[1:]:
            if rk.random() < .3:
                v['kill'] = rk.randint(0, 7)
            if rk.random() < .25:
                v['older_mtime'] = True
        for v in versions[1:-1]:
            if rk.random() < .15:
                # this version is reloaded without waiting; the file is edited again and reloaded at once, while the
                # first reload may still be at work: the daemon has to end up on the LAST version
                v['overlap'] = True
    d = tempfile.mkdtemp(prefix='verif-c12-')
    nv = len(res.viol)
    try:
        _chain(versions, d, res)
        for v in res.viol[nv:]:
            v['spec'] = {'versions': versions}
    finally:
        shutil.rmtree(d, ignore_errors=True)
    return res


def fresh_view(path):
    """snapshot of a fresh daemon started on this file"""
    w = simhist.new_world({})
    w.kernel.spawn_fail_cmds = {MISSING}
    out = {}

    @gen.coroutine
    def go():
        arb = w.load_arbiter(path)
        yield arb.start()
        yield w.settle(60)
        out['view'] = view(w)
    try:
        w.run(go)
    finally:
        w.close()
    return out.get('view')


def view(w):
    snap = w.snapshot(with_stats=False)
    v = {}
    for n, d_ in (snap.get('per') or {}).items():
        o = dict(d_.get('options') or {})
        # hooked state: which hooks are installed and for which of them failures are ignored (no request shows it)
        for wobj in w.arb.watchers:
            if wobj.name.lower() == n.lower():
                o['<hooks installed / failures ignored>'] = (tuple(sorted(wobj.hooks)),
                                                             tuple(sorted(set(wobj.ignore_hook_failure))))
        v[n] = {'status': d_['status'], 'nlive': len(d_['pids'] or []), 'options': o}
    return v


def _chain(versions, d, res):
    from circus.config import get_config
    path = os.path.join(d, 'circus.ini')
    with open(path, 'w') as f:
        f.write(render(versions[0]['model']))
    w = simhist.new_world({})
    w.kernel.spawn_fail_cmds = {MISSING}
    w.kernel.beh_for = lambda argv, n: {15: ('die', 0.15)}      # a stop takes 0.15 s: operations have a duration
    labels = []
    try:
        st = {}

        @gen.coroutine
        def boot():
            arb = w.load_arbiter(path)
            yield arb.start()
            yield w.settle(60)
        w.run(boot)
        prev_cfg = {x['name']: x for x in get_config(path)['watchers']}
        stale, pend = {}, {}          # per watcher: mechanism bookkeeping for the known findings
        after_overlap = False
        for i, ver in enumerate(versions[1:], 1):
            lab = ver['label']
            labels.append(lab)
            with open(path, 'w') as f:
                f.write(render(ver['model']))
            if ver.get('older_mtime'):
                # the file is put back from a backup / written by rsync -t: its modification time is OLDER than that
                # of the version the daemon read last; what counts is the content
                try:
                    os.utime(path, (1.0e9 + i, 1.0e9 + i - 1000 * i))
                    res.obs['versions_with_an_older_mtime'] += 1
                except OSError:
                    pass
            new_cfg = {x['name']: x for x in get_config(path)['watchers']}
            w.activate()
            k = w.kernel
            if ver.get('overlap') and not ver.get('kill'):
                @gen.coroutine
                def fire():
                    w.req('reloadconfig')          # not waiting: answered at once, the work goes on
                    yield w.advance(0.01)
                w.run(fire)
                res.obs['reloadconfig_fired_without_waiting'] += 1
                after_overlap = True
                continue
            # sometimes a worker dies (killed from outside) just before the request, and no periodic check has seen
            # it yet: the reload must not take that for a reason to touch the healthy ones
            killed = None
            if ver.get('kill') is not None:
                cands = sorted(p for n in NAMES for p in k.live(simhist.tag_of(n)))
                if cands:
                    killed = cands[ver['kill'] % len(cands)]
                    k.kill(killed, 9, sender='ext')
                    k._settle()
                    res.obs['worker_killed_just_before_reloadconfig'] += 1
            before_pids = {n: set(k.live(simhist.tag_of(n))) for n in NAMES}
            l0 = len(k.log)
            box = {}

            @gen.coroutine
            def reload(killed=killed):
                box['rep'] = yield w.call('reloadconfig', waiting=True)
                for attempt in range(200):
                    # refused because the earlier reload is still running: the client tries again
                    r_ = box['rep']
                    if not (isinstance(r_, dict) and r_.get('status') == 'error' and 'already running' in str(r_.get('reason'))):
                        break
                    yield w.advance(0.1)
                    box['rep'] = yield w.call('reloadconfig', waiting=True)
                yield w.settle(120)
                yield w.advance(0.05)
                box['after_reload'] = {n: set(k.live(simhist.tag_of(n))) for n in NAMES}
                box['log_end'] = len(k.log)
                if killed is not None:
                    # the death is noticed by the next periodic check at the latest
                    yield w.check()
                    yield w.settle(120)
                    yield w.advance(0.05)
                box['view'] = view(w)
            w.run(reload)
            if w.stalled is not None:
                res.obs['stalled(C05 owns)'] += 1
                return
            rep = box.get('rep')
            if not isinstance(rep, dict) or rep.get('status') != 'ok':
                res.violation('C12/reloadconfig-failed:' + lab, 'reloadconfig after edit %s answered %s'
                              % (lab, str(rep)[:200]), labels=list(labels))
                return
            after_pids = {n: set(k.live(simhist.tag_of(n))) for n in NAMES}
            activity = [e for e in k.log[l0:box.get('log_end')] if e[1] in ('spawn', 'signal')]
            fresh = fresh_view(path)
            w.activate()
            res.obs['versions_compared'] += 1
            res.obs['edit:' + lab.split(':')[0]] += 1
            mine = box['view']
            for n in set(prev_cfg) | set(new_cfg):
                if n not in prev_cfg or n not in new_cfg:
                    stale.pop(n, None)
                    pend.pop(n, None)
                    continue
                a, b = prev_cfg[n], new_cfg[n]
                cc = {k_ for k_ in set(a) & set(b) if a[k_] != b[k_]}
                addrem = set(a) ^ set(b)
                if cc == {'numprocesses'}:
                    stale[n] = True
                    pend.setdefault(n, set()).update(addrem)
                elif cc:
                    stale[n] = False
                    pend[n] = set()
                else:
                    pend.setdefault(n, set()).update(addrem)
            diverged = False
            # (a) same as a fresh start on that file
            if set(mine) != set(fresh):
                res.violation('C12/watcher-set-differs-from-file:' + lab, 'after %s the daemon runs %s, a fresh start '
                              'on the file runs %s' % (labels, sorted(mine), sorted(fresh)))
            for n in set(mine) & set(fresh):
                if mine[n]['nlive'] != fresh[n]['nlive'] or mine[n]['options'].get('numprocesses') != \
                        fresh[n]['options'].get('numprocesses'):
                    diverged = True
                    res.violation('C12/numprocesses-differs-from-file[%s]'
                                  % ('after-numprocesses-only-change:stale-_cfg' if stale.get(n) else lab.split(':')[0]),
                                  'watcher %s after edits %s: %d live / numprocesses %s; fresh start: %d / %s'
                                  % (n, labels, mine[n]['nlive'], mine[n]['options'].get('numprocesses'),
                                     fresh[n]['nlive'], fresh[n]['options'].get('numprocesses')))
                diff = {o: (mine[n]['options'].get(o), fresh[n]['options'].get(o))
                        for o in set(mine[n]['options']) | set(fresh[n]['options'])
                        if mine[n]['options'].get(o) != fresh[n]['options'].get(o) and o != 'numprocesses'}
                if diff:
                    diverged = True
                    res.violation('C12/options-differ-from-file[%s]'
                                  % ('option-key-added-or-removed' if set(diff) <= pend.get(n, set()) else lab),
                                  'watcher %s after edits %s: options differ from a fresh start (daemon, fresh): %s'
                                  % (n, labels, diff))
            for n in NAMES:
                if n not in new_cfg and after_pids[n]:
                    res.violation('C12/removed-watcher-workers-alive', 'watcher %s is not in the file any more but its '
                                  'workers %s are still running (edits %s)' % (n, sorted(after_pids[n]), labels))
            # (b) untouched watchers keep their pids; (c) numprocesses-only edits move only the difference
            # (not judged right after an overlapped pair of reloads: what "the previous version" was is not defined)
            for n in (set(prev_cfg) & set(new_cfg) if not after_overlap else ()):
                a, b = prev_cfg[n], new_cfg[n]
                if a == b:
                    res.obs['unchanged_watchers_judged'] += 1
                    ar = box.get('after_reload', after_pids)[n]      # before any periodic check replaced a dead one
                    if before_pids[n] != ar:
                        res.violation('C12/unchanged-watcher-disturbed:' + lab,
                                      'watcher %s has the same effective section in both versions but its pids went '
                                      'from %s to %s (edit %s)' % (n, sorted(before_pids[n]), sorted(ar), lab))
                else:
                    a2, b2 = dict(a), dict(b)
                    a2.pop('numprocesses'), b2.pop('numprocesses')
                    if a2 == b2:
                        res.obs['numprocesses_only_edits_judged'] += 1
                        kept = before_pids[n] & after_pids[n]
                        want = int(b['numprocesses'])
                        if len(kept) != min(len(before_pids[n]), want) and len(after_pids[n]) == want:
                            res.violation('C12/numprocesses-edit-replaced-workers',
                                          'watcher %s numprocesses %s -> %s: pids %s -> %s (more than the difference '
                                          'changed)' % (n, a['numprocesses'], b['numprocesses'],
                                                        sorted(before_pids[n]), sorted(after_pids[n])))
            # (d) unchanged file: nothing happens
            if prev_cfg == new_cfg and not after_overlap:
                res.obs['unchanged_files_judged'] += 1
                if activity:
                    res.violation('C12/unchanged-file-caused-activity', 'reloading an unchanged configuration produced %s'
                                  % activity[:4])
            prev_cfg = new_cfg
            after_overlap = False
            if diverged:
                break          # later versions would only show the same divergence again
        res.nontrivial(repr(labels))
        if res.sample is None:
            res.sample = {'edits': labels, 'last_file': render(versions[-1]['model'])}
        for ev, args in w.breach():
            res.inconclusive.append('containment breach %s' % ev)
    finally:
        w.close()


def starved(merged, tier):
    o = merged['obs']
    out = []
    if o.get('versions_compared', 0) < 1500:
        out.append('only %d versions compared' % o.get('versions_compared', 0))
    if o.get('unchanged_watchers_judged', 0) < 500:
        out.append('only %d unchanged watchers judged' % o.get('unchanged_watchers_judged', 0))
    if o.get('numprocesses_only_edits_judged', 0) < 200:
        out.append('only %d numprocesses-only edits judged' % o.get('numprocesses_only_edits_judged', 0))
    return out


def precheck():
    from vlib.calibrate import calibrate
    return calibrate()
