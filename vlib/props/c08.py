"""C08 — shutdown is complete: nothing is left behind after quit or a termination signal.

Engine LIVE: a real circusd (under strace -D for corroboration) with real probe workers, managed
unix / inet sockets and a pid file; shut down by a quit request or by SIGTERM / SIGINT / SIGQUIT at
a chosen point of its life (idle, during the paced start-up, during a stop / restart with stubborn
workers, during a periodic check that is respawning).  The OS is the oracle: exit status, /proc,
the filesystem, connect().
"""
import os
import signal
import socket
import subprocess
import time

from vlib import live
from vlib.common import CaseResult, rng_for

ID = 'C08'
LEVEL = 'exploration'
RULE = ('one real daemon per case: 1-3 watchers (workers that die at once, after 0.3 s, or ignore SIGTERM with '
        'graceful_timeout 1 s), managed unix + inet(port 0) sockets, pid file absent / from the config / from '
        '--pidfile; shutdown by quit request, SIGTERM, SIGINT or SIGQUIT arriving when idle, during the paced '
        'start-up, 0.2 s into a stop or a restart of stubborn workers, or while a periodic check is respawning with '
        'a warmup delay; plus pid-file start-up cases (live other pid, dead pid, empty, garbage, negative, zero). '
        'non-trivial = the daemon was up with workers and the shutdown oracle ran; distinct = (configuration class, '
        'arrival point, method, outcome)')
ASSUMPTIONS = ['removal of the ZeroMQ ipc:// endpoint files is libzmq business and is not demanded',
               'wall-clock limits are generous (>= 10x the configured timeouts) and only turn into a verdict when '
               'corroborated: the daemon process still exists and has not exited after the wait',
               'behaviour under SIGKILL of the daemon itself is out of scope']
BUDGET = {'quick': 400, 'thorough': 2400}
MAX_SHARDS = 12
CASE_TIMEOUT = 120
KINDS = {
    'obedient': {},
    'slow': {'die': {'15': 0.3}},
    'stubborn': {'ignore': [15]},
}
ARRIVALS = ['idle', 'idle', 'startup', 'during-stop', 'during-restart', 'respawning-check', 'during-long-stop',
            'early-startup']
METHODS = ['quit', 'TERM', 'INT', 'QUIT']


def plan(tier, seed):
    out = []
    # a fixed core that always runs: every arrival x the signal path, and the pid-file cases
    for arr in ['idle', 'startup', 'during-stop', 'during-restart', 'respawning-check']:
        out.append({'arrival': arr, 'how': 'TERM', 'seed': seed, 'idx': len(out)})
    out.append({'arrival': 'idle', 'how': 'quit', 'seed': seed, 'idx': len(out)})
    out.append({'arrival': 'idle', 'how': 'INT', 'seed': seed, 'idx': len(out)})
    out.append({'arrival': 'during-stop', 'how': 'QUIT', 'seed': seed, 'idx': len(out)})
    for pre in ['live', 'dead', 'empty', 'garbage', 'own', 'live-foreign']:
        out.append({'arrival': 'idle', 'how': 'quit', 'prepid': pre, 'seed': seed, 'idx': len(out)})
    # a long exclusive operation: the signal arrives many seconds before it ends
    out.append({'arrival': 'during-long-stop', 'how': 'TERM', 'seed': seed, 'idx': len(out)})
    out.append({'arrival': 'idle', 'how': 'quit', 'late_add': True, 'seed': seed, 'idx': len(out)})
    out.append({'arrival': 'idle', 'how': 'TERM', 'replace': True, 'seed': seed, 'idx': len(out)})
    out.append({'arrival': 'idle', 'how': 'quit', 'streams': True, 'seed': seed, 'idx': len(out)})
    # a second termination signal while the shutdown is under way (an impatient operator, an init system that signals
    # the whole group after the main process)
    out.append({'arrival': 'idle', 'how': 'TERM', 'second': 'TERM', 'seed': seed, 'idx': len(out)})
    out.append({'arrival': 'idle', 'how': 'quit', 'second': 'INT', 'seed': seed, 'idx': len(out)})
    out.append({'arrival': 'during-stop', 'how': 'INT', 'second': 'QUIT', 'seed': seed, 'idx': len(out)})
    # a daemon that has nothing to do for a long time (check_delay one hour): the signal itself must wake it
    out.append({'arrival': 'idle', 'how': 'TERM', 'check_delay': 3600, 'seed': seed, 'idx': len(out)})
    out.append({'arrival': 'idle', 'how': 'INT', 'check_delay': 3600, 'seed': seed, 'idx': len(out)})
    out.append({'arrival': 'idle', 'how': 'QUIT', 'check_delay': 600, 'seed': seed, 'idx': len(out)})
    out.append({'arrival': 'early-startup', 'how': 'TERM', 'seed': seed, 'idx': len(out)})
    out.append({'arrival': 'early-startup', 'how': 'INT', 'seed': seed, 'idx': len(out)})
    out.append({'arrival': 'early-startup', 'how': 'TERM', 'early_delay': 0.02, 'seed': seed, 'idx': len(out)})
    out.append({'arrival': 'early-startup', 'how': 'QUIT', 'early_delay': 0.05, 'seed': seed, 'idx': len(out)})
    n = 0 if tier == 'quick' else 140
    for i in range(n):
        out.append({'random': True, 'seed': seed, 'idx': 100 + i})
    return out


def build(rnd, spec):
    arrival = spec.get('arrival')
    ws = []
    nw = rnd.randint(1, 3)
    for i in range(nw):
        kind = rnd.choice(['obedient', 'slow', 'stubborn'])
        ws.append({'name': 'w%d' % i, 'kind': kind, 'np': rnd.randint(1, 2), 'gt': 1.0, 'warmup': 0,
                   'streams': rnd.random() < .3 or (i == 0 and bool(spec.get('streams')))})
    if arrival in ('during-stop', 'during-restart') or spec.get('second'):
        ws[0]['kind'] = 'stubborn'
    if arrival == 'during-long-stop':
        ws[0]['kind'] = 'stubborn'
        ws[0]['gt'] = 7.0
    if arrival == 'respawning-check':
        ws[0].update(kind='obedient', np=3, warmup=1)
    gw = 1 if arrival == 'startup' else 0
    if arrival == 'early-startup':
        # the signal arrives the moment the pid file appears: nothing is started yet, the loop does not run yet
        spec = dict(spec, pidfile=spec.get('pidfile') or rnd.choice(['config', 'cli']))
    if arrival == 'startup':
        # the first watcher is already up (and slow to stop) when the signal arrives, others are still pending
        ws[0]['kind'] = rnd.choice(['stubborn', 'stubborn', 'slow'])
        while len(ws) < 3:
            ws.append({'name': 'w%d' % (7 + len(ws)), 'kind': rnd.choice(['obedient', 'stubborn']), 'np': 1, 'gt': 1.0,
                       'warmup': 0})
    return {'watchers': ws, 'global_warmup': gw, 'sockets': rnd.random() < .7 or bool(spec.get('replace')),
            'replace': rnd.random() < .4 or bool(spec.get('replace')),
            'reuse_unix': rnd.random() < .4 or bool(spec.get('replace')),
            'late_add': (rnd.random() < .35 or bool(spec.get('late_add'))) and arrival in ('idle',),
            'check_delay': spec.get('check_delay', 0.5),
            'pidfile': spec.get('pidfile') or rnd.choice(['none', 'config', 'cli']) if not spec.get('prepid') else 'config'}


def ini_for(d, conf):
    extra = 'warmup_delay = %d\n' % conf['global_warmup']
    if conf['pidfile'] == 'config':
        extra += 'pidfile = @DIR@/circus.pid\n'
    txt = d.header(check_delay=conf.get('check_delay', 0.5), extra=extra)
    for w in conf['watchers']:
        spec = dict(KINDS[w['kind']])
        spec['log'] = '@LOG@'
        txt += ('[watcher:%s]\ncmd = %s\nnumprocesses = %d\ngraceful_timeout = %s\nwarmup_delay = %d\ncopy_env = True\n'
                % (w['name'], live.worker_cmd(spec), w['np'], w['gt'], w['warmup']))
        if w.get('streams'):
            # output captured into files; /dev/null (cannot be fsync'ed, cannot be rotated) is a documented way to
            # throw a channel away
            txt += ('stdout_stream.class = FileStream\nstdout_stream.filename = @DIR@/%s.out\n'
                    'stderr_stream.class = FileStream\nstderr_stream.filename = /dev/null\n' % w['name'])
        txt += '\n'
    if conf['sockets']:
        txt += ('[socket:u]\npath = @DIR@/managed.sock\n%s\n[socket:i]\nhost = 127.0.0.1\nport = 0\n\n'
                % ('replace = True\n' if conf.get('replace') else ''))
        if conf.get('reuse_unix'):
            # a unix socket that is bound per worker (so_reuseport): its file is the daemon's to remove all the same
            txt += ('[socket:r]\npath = @DIR@/reuse.sock\nso_reuseport = True\n\n'
                    '[watcher:wr]\ncmd = %s --fd $(circus.sockets.r)\nuse_sockets = True\nnumprocesses = 1\n'
                    'graceful_timeout = 1\ncopy_env = True\n\n' % live.worker_cmd({'log': '@LOG@'}))
    return txt


def run_case(spec):
    res = CaseResult()
    rnd = rng_for(spec['seed'], 'C08', spec['idx'])
    if spec.get('random'):
        spec = dict(spec, arrival=rnd.choice(ARRIVALS), how=rnd.choice(METHODS),
                    prepid=rnd.choice([None] * 6 + ['live', 'dead', 'empty', 'garbage', 'negative', 'zero', 'own']),
                    second=rnd.choice([None, None, None, 'TERM', 'INT', 'QUIT']),
                    check_delay=rnd.choice([0.5, 0.5, 0.5, 3600]))
        if spec['prepid']:
            spec['arrival'] = 'idle'
        if spec['arrival'] != 'idle':
            spec['check_delay'] = 0.5
        if spec['arrival'] == 'early-startup' and spec['how'] == 'quit':
            spec['how'] = 'TERM'          # no endpoint to send a request to yet
    conf = build(rnd, spec)
    d = live.Daemon('', strace=True)
    d.ini = ini_for(d, conf).replace('@DIR@', d.dir).replace('@LOG@', d.logdir)
    with open(d.ini_path, 'w') as f:
        f.write(d.ini)
    if conf['sockets'] and conf.get('replace'):
        # a socket file left over by a daemon that crashed: `replace = True` says take it over
        import socket as _s
        st = _s.socket(_s.AF_UNIX)
        st.bind(os.path.join(d.dir, 'managed.sock'))
        st.close()
    pidfile = None
    if conf['pidfile'] == 'config':
        pidfile = os.path.join(d.dir, 'circus.pid')
    elif conf['pidfile'] == 'cli':
        pidfile = os.path.join(d.dir, 'cli.pid')
        d.args = ['--pidfile', pidfile]
    nv = len(res.viol)
    try:
        _case(d, conf, spec, pidfile, res)
    finally:
        for v in res.viol[nv:]:
            v['spec'] = dict(spec, random=False, conf=conf)
        d.cleanup()
    return res


def _case(d, conf, spec, pidfile, res):
    arrival, how, pre = spec['arrival'], spec['how'], spec.get('prepid')
    label = '%s/%s' % (arrival, how)
    sent_early = False
    pre_content = None
    if pre:
        if pre == 'live':
            pre_content = '%d\n' % os.getpid()
        elif pre == 'live-foreign':
            # the pid file names a live process of ANOTHER user (init) and the daemon does not run as root: it cannot
            # even probe that process (EPERM) -- which is no proof that it is gone
            pre_content = '1\n'
            d.strace = False
            for path_ in (d.dir, d.logdir):
                os.chmod(path_, 0o777)
            os.chmod(d.ini_path, 0o644)
            d.as_uid = 65534
        elif pre == 'dead':
            p = subprocess.Popen(['/bin/true'])
            p.wait()
            pre_content = '%d\n' % p.pid
        elif pre == 'empty':
            pre_content = ''
        elif pre == 'garbage':
            pre_content = 'not a pid\n'
        elif pre == 'negative':
            pre_content = '-7\n'
        elif pre == 'zero':
            pre_content = '0\n'
        elif pre == 'own':
            pre_content = None       # the daemon-to-be writes its own pid between fork and exec
            d.strace = False         # strace would sit between us and the daemon's pid
            d.preexec = lambda pf=pidfile: open(pf, 'w').write('%d\n' % os.getpid())
        if pre_content is not None:
            with open(pidfile, 'w') as f:
                f.write(pre_content)
            if d.as_uid is not None:
                os.chown(pidfile, d.as_uid, d.as_uid)       # the user's own pid file, of an earlier run
    d.start()
    if pre in ('live', 'live-foreign'):
        rc = d.wait_exit(15)
        res.obs['pidfile_cases:' + pre] += 1
        if rc is None:
            res.violation('C08/started-despite-live-pidfile' + ('[process-of-another-user]' if pre == 'live-foreign' else ''),
                          'pid file names the live process %s but circusd is running' % pre_content.strip())
        elif rc == 0:
            res.violation('C08/live-pidfile-exit-status-0', 'circusd refused to start (pid file names a live process) but '
                          'exited with status 0: %s' % d.output()[-200:])
        if open(pidfile).read() != pre_content:
            res.violation('C08/live-pidfile-overwritten', 'pid file of another live process was modified: %r'
                          % open(pidfile).read())
        res.nontrivial('pidfile-live:%s' % rc)
        res.sample = {'case': 'pid file names a live process', 'exit_status': rc}
        return
    nworkers = sum(w['np'] for w in conf['watchers']) + (1 if conf['sockets'] and conf.get('reuse_unix') else 0)
    if arrival == 'early-startup':
        t_end = time.time() + 15
        while time.time() < t_end and not (os.path.exists(pidfile) and open(pidfile).read().strip()):
            if d.proc.poll() is not None:
                break
            time.sleep(0.001)
        if not os.path.exists(pidfile):
            res.inconclusive.append('pid file never appeared: %s' % d.output()[-300:])
            return
        time.sleep(spec.get('early_delay', 0.0))
        # at once: anything done in between (scanning /proc, ...) would let the start-up run on
        os.kill(d.pid, getattr(signal, 'SIG' + how))
        sent_early = True
    elif arrival == 'startup':
        if not d.wait_bound(15):
            res.inconclusive.append('daemon did not bind its endpoint: %s' % d.output()[-300:])
            return
        time.sleep(0.6)           # inside the paced start-up (global warmup_delay 1 s per watcher)
    else:
        if not d.wait_ready(20) or not d.workers_up(nworkers, 15):
            rc0 = d.proc.poll()
            if pre and rc0 is not None:
                res.obs['pidfile_cases:' + pre] += 1
                res.violation('C08/stale-pidfile-not-taken-over[%s]' % pre, 'pid file held %r; circusd exited with status '
                              '%s instead of taking it over: %s' % (pre_content, rc0, d.output()[-200:]))
                return
            res.inconclusive.append('daemon not ready: %s' % d.output()[-300:])
            return
    if pre:
        res.obs['pidfile_cases:' + pre] += 1
        try:
            content = open(pidfile).read().strip()
        except OSError:
            content = None
        if content != str(d.pid):
            res.violation('C08/stale-pidfile-not-taken-over[%s]' % pre, 'pid file held %r, daemon pid %d, file now %r'
                          % (pre_content, d.pid, content))
    elif pidfile:
        try:
            content = open(pidfile).read().strip()
        except OSError:
            content = None
        if content != str(d.pid):
            res.violation('C08/pidfile-not-written', 'pid file %s holds %r, daemon pid is %d' % (pidfile, content, d.pid))
    # the state to shut down
    inflight = None
    if arrival in ('during-stop', 'during-long-stop'):
        d.call('stop', name='w0')
        inflight = 'stop'
        time.sleep(0.2)
    elif arrival == 'during-restart':
        d.call('restart', name='w0')
        inflight = 'restart'
        time.sleep(0.2)
    elif arrival == 'respawning-check':
        for p, st, stt in d.children():
            if any(str(p) == os.path.basename(u).split('.')[0] for u in os.listdir(d.logdir)):
                pass
        r = d.call('list', name='w0')
        for p in r.get('pids', []):
            try:
                os.kill(p, 9)
            except OSError:
                pass
        inflight = 'manage_watchers'
        time.sleep(0.9)           # check_delay 0.5: the check is now respawning 3 workers 1 s apart
    elif arrival == 'startup':
        inflight = 'arbiter_start_watchers'
    elif arrival == 'early-startup':
        inflight = 'start-up'
    if conf.get('late_add') and arrival == 'idle':
        # the set of watchers changed at run time right before the shutdown: one removed, one added and started
        victim = conf['watchers'][-1]['name']
        d.call('rm', name=victim, waiting=True, timeout=15)
        d.call('add', name='late', cmd=live.worker_cmd(dict(KINDS['obedient'], log=d.logdir)), start=True, waiting=True,
               options={'numprocesses': 2, 'graceful_timeout': 1.0, 'copy_env': True}, timeout=15)
        res.obs['shutdown_right_after_rm_and_add'] += 1
        time.sleep(0.15)
    kids = [(p, stt) for p, st, stt in d.children()]
    sock_path = os.path.join(d.dir, 'managed.sock')
    port = None
    if conf['sockets'] and arrival not in ('startup', 'early-startup'):
        ls = d.call('listsockets')
        for s_ in ls.get('sockets', []):
            if s_.get('port'):
                # port 0 in the config: find the real one from /proc/net/tcp via the daemon's fd
                port = _port_of(d.pid, s_['fd'])
        if not os.path.exists(sock_path):
            res.violation('C08/managed-unix-socket-missing', 'managed unix socket path does not exist while running')
    # ---- shut down
    t0 = time.time()
    accepted = True
    if how == 'quit':
        r = d.call('quit', timeout=15.0)
        accepted = r.get('status') == 'ok'
        if not accepted:
            res.obs['quit_refused:%s' % (inflight or 'idle')] += 1
            res.hist['quit_refusal_reason'][str(r.get('reason'))[:60]] += 1
    elif not sent_early:
        os.kill(d.pid, getattr(signal, 'SIG' + how))
    if spec.get('second') and accepted:
        time.sleep(0.3)
        if d.proc.poll() is None:
            try:
                os.kill(d.pid, getattr(signal, 'SIG' + spec['second']))
                res.obs['second_signal_during_the_shutdown'] += 1
            except OSError:
                pass
    res.obs['shutdowns:%s' % label] += 1
    if not accepted:
        # "after an accepted quit request": a refused one is not this property (C10 says it may be refused)
        res.nontrivial(repr(('refused-quit', arrival)))
        return
    rc = d.wait_exit(25)
    took = time.time() - t0
    if rc is None:
        # corroborate: the process is still there and strace saw the signal delivered
        delivered = [ln for ln in d.strace_lines() if '--- SIG%s' % how in ln] if how != 'quit' else ['(quit accepted)']
        still = live.alive(d.pid)
        if still and delivered:
            st = d.call('status', timeout=3.0)
            res.violation('C08/daemon-still-running-after-%s[%s]'
                          % ('quit' if how == 'quit' else 'signal',
                             'exclusive-operation-in-flight' if inflight else 'idle'),
                          '%s delivered at %s (in flight: %s); 25 s later circusd (pid %d) is still running and answers '
                          'status with %s; daemon log tail: %s'
                          % (how, arrival, inflight, d.pid, str(st)[:100], d.output()[-300:].replace('\n', ' | ')))
        else:
            res.inconclusive.append('no exit within 25 s but not corroborated (alive=%s, signal seen by strace=%s)'
                                    % (still, bool(delivered)))
        return
    res.hist['shutdown_seconds'][int(took)] += 1
    if rc != 0:
        res.violation('C08/exit-status-nonzero[%s]' % (inflight or 'idle'), '%s at %s: circusd exited with status %s; output tail: %s'
                      % (how, arrival, rc, d.output()[-400:].replace('\n', ' | ')))
    time.sleep(0.3)
    left = []
    for p, stt in kids:
        st = live.proc_stat(p)
        if st is not None and st[2] == stt:
            left.append((p, st[1], st[0]))
    extra = [p for p in live.tagged_pids(d.id) if p != d.pid and not any(p == x[0] for x in left)]
    for p in extra:
        st = live.proc_stat(p)
        if st is not None:
            left.append((p, st[1], st[0]))
    if left:
        res.violation('C08/worker-left-behind[%s]' % (inflight or 'idle'),
                      'after %s at %s circusd exited %s but processes %s (pid, state, ppid) are still there'
                      % (how, arrival, rc, left))
    if conf['sockets'] and os.path.exists(sock_path):
        res.violation('C08/unix-socket-file-left', 'managed unix socket %s still exists after shutdown' % sock_path)
    if conf['sockets'] and conf.get('reuse_unix') and os.path.exists(os.path.join(d.dir, 'reuse.sock')):
        res.violation('C08/unix-socket-file-left[so_reuseport]', 'the file of the so_reuseport unix socket still exists '
                      'after shutdown')
    if pidfile and os.path.exists(pidfile):
        res.violation('C08/pidfile-left[%s]' % conf['pidfile'], 'pid file %s still exists after shutdown (content %r)'
                      % (pidfile, open(pidfile).read()))
    if port:
        s = socket.socket()
        s.settimeout(1)
        try:
            s.connect(('127.0.0.1', port))
            res.violation('C08/inet-socket-still-accepting', 'managed inet port %d still accepts after shutdown' % port)
        except OSError:
            pass
        finally:
            s.close()
    res.obs['children_checked'] += len(kids)
    res.nontrivial(repr((sorted(w['kind'] for w in conf['watchers']), conf['sockets'], conf['pidfile'], arrival, how, rc)))
    res.sample = {'watchers': conf['watchers'], 'sockets': conf['sockets'], 'pidfile': conf['pidfile'], 'arrival': arrival,
                  'method': how, 'exit_status': rc, 'seconds': round(took, 2), 'children_before': len(kids)}


def _port_of(pid, fd):
    try:
        tgt = os.readlink('/proc/%d/fd/%d' % (pid, fd))
        ino = tgt[tgt.index('[') + 1:-1]
        for ln in open('/proc/net/tcp').read().splitlines()[1:]:
            f = ln.split()
            if f[9] == ino:
                return int(f[1].split(':')[1], 16)
    except Exception:
        return None
    return None


def starved(merged, tier):
    o = merged['obs']
    out = []
    n = sum(v for k, v in o.items() if k.startswith('shutdowns:'))
    if n < 6:
        out.append('only %d shutdowns exercised' % n)
    if o.get('children_checked', 0) < 5:
        out.append('only %d former children checked' % o.get('children_checked', 0))
    return out
