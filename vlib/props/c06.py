"""C06 — every control request gets exactly one well-formed reply bearing its id.

Daemon half: SIM — frames through the real Controller.handle_message, reply ledger per frame,
then a numwatchers probe.  Client half: the real CircusClient / AsyncCircusClient against a
scripted ROUTER peer over real ZeroMQ (ipc), which answers with permutations of stale, foreign,
id-less, duplicated and correct replies, or with silence.
"""
import json
import os
import shutil
import tempfile
import threading
import time

from tornado import gen

from vlib import simhist
from vlib.common import CaseResult, rng_for

ID = 'C06'
LEVEL = 'exploration'
RULE = ('daemon: per world 14 frames drawn from: arbitrary bytes (random, truncated JSON, invalid UTF-8, empty, '
        'whitespace), every JSON value shape (null, numbers, strings, arrays, nested), objects with id / command / '
        'properties / msg_type each absent, null, wrongly typed or right, every registered command with properties '
        'from valid and type-confused values, operations failing after the immediate reply path (waiting with '
        'arguments that break inside the coroutine, raising hooks, exec failures); each frame is followed by a '
        'numwatchers probe. client: scripted reply sequences (stale id, foreign id, no id, duplicate of the right '
        'reply, right reply, silence) for CircusClient.call and AsyncCircusClient.call, several calls per client. '
        'non-trivial = a frame whose reply count and id were judged / a client call with at least one wrong reply '
        'before the right one; distinct = (frame class, command, reply count, status) / reply script')
ASSUMPTIONS = ['multi-frame envelopes other than [identity, payload] have no protocol meaning and are not judged',
               'status NAME legitimately answers with the watcher status in the status field (documented)',
               'AsyncCircusClient has no timeout of its own; only its id filter is judged',
               'replies that are not JSON objects, or not JSON at all, sent TO the client are ambiguous (a daemon never '
               'sends them): recorded, not judged']
BUDGET = {'quick': 300, 'thorough': 1800}
MAX_SHARDS = 16
CASE_TIMEOUT = 120

READONLY = ['status', 'list', 'numprocesses', 'options', 'stats', 'numwatchers', 'get', 'globaloptions',
            'listsockets', 'dstats']


def commands():
    from circus.commands import get_commands
    return sorted(get_commands())


VALUES = [None, True, False, 0, 1, -1, 2 ** 70, 1.5, '', 'a', 'A', 'nosuch', '*', 'ü', 'x' * 300, [], [1, 'a'], {},
          {'a': {'b': [1, 2, {'c': None}]}}, 'TERM', '15', 15, 'waiting']


def gen_frame(rnd, cmds, names, pids):
    """-> (bytes, meta) where meta = {'cls':..., 'id': expected id or marker, 'cast': bool, 'cmd': str|None}"""
    c = rnd.choice(['bytes', 'shape', 'fields', 'fields', 'command', 'command', 'command', 'latefail', 'unserialisable'])
    if c == 'unserialisable' and 'q' in names:
        # a reply that cannot be JSON-encoded (watcher created through the embedding API with a stream object)
        mid = 'u-%d' % rnd.randint(0, 10 ** 6)
        cmd, props = rnd.choice([('options', {'name': 'q'}), ('get', {'name': 'q', 'keys': ['stdout_stream_conf']}),
                                 ('options', {'name': 'Q', 'waiting': True})])
        return json.dumps({'id': mid, 'command': cmd, 'properties': props}).encode(), \
            {'cls': 'command', 'id': mid, 'cast': False, 'cmd': cmd, 'props': props}
    if c == 'unserialisable':
        c = 'command'
    if c == 'bytes':
        b = rnd.choice([b'', b' ', b'\n\t ', b'\x00', b'\xff\xfe', os.urandom(rnd.randint(1, 40)) if False else
                        bytes(rnd.randrange(256) for _ in range(rnd.randint(1, 40))),
                        b'{"command": "list"', b'{"id": "x", "command": ', b'{]', b"{'command': 'list'}",
                        b'{"command": "list"} trailing', b'[' * 50, b'{"a":' * 30, b'nul', b'"', b'{"command":"list",}'])
        return b, {'cls': 'bytes', 'id': None, 'cast': False, 'cmd': None, 'empty': not b.strip()}
    if c == 'shape':
        v = rnd.choice([None, 0, 17, -3.5, True, 'list', '', [], [1, 2], ['list'], [{'command': 'list'}], 'x' * 100,
                        1e308, [[[]]]])
        return json.dumps(v).encode(), {'cls': 'json-non-object', 'id': None, 'cast': False, 'cmd': None}
    if c == 'fields':
        d = {}
        mid = rnd.choice(['ABSENT', None, 'id-%d' % rnd.randint(0, 99), 12, 1.5, ['i'], {'k': 1}, True, ''])
        if mid != 'ABSENT':
            d['id'] = mid
        cm = rnd.choice(['ABSENT', None, 12, ['list'], {'x': 1}, True, '', 'LIST', 'nosuchcmd', 'list', 'numwatchers',
                         'status', ' list'])
        if cm != 'ABSENT':
            d['command'] = cm
        pr = rnd.choice(['ABSENT', None, 'str', 5, [], ['name'], {}, {'name': rnd.choice(names)}, {'name': 7}])
        if pr != 'ABSENT':
            d['properties'] = pr
        mt = rnd.choice(['ABSENT', 'ABSENT', None, 'cast', 'dealer', 5, 'CAST'])
        if mt != 'ABSENT':
            d['msg_type'] = mt
        return json.dumps(d).encode(), {'cls': 'fields', 'id': None if mid == 'ABSENT' else mid, 'cast': mt == 'cast',
                                         'cmd': cm if isinstance(cm, str) else None}
    if c == 'command':
        cmd = rnd.choice([x for x in cmds if x not in ('quit', 'ipython', 'listen')])
        props = {}
        pool = ['name', 'nb', 'waiting', 'options', 'keys', 'signum', 'pid', 'childpid', 'children', 'recursive',
                'graceful', 'sequential', 'match', 'nostop', 'cmd', 'args', 'start', 'process', 'extended', 'option',
                'graceful_timeout']
        for k in rnd.sample(pool, rnd.randint(0, 5)):
            props[k] = rnd.choice(VALUES + [rnd.choice(names), rnd.choice(names).upper(), rnd.choice(pids + [1, 99999])])
            if k == 'nb' and isinstance(props[k], (int, float)) and not isinstance(props[k], bool) and abs(props[k]) > 50:
                props[k] = 3        # a huge count would (really) fork-bomb; not what this property is about
        if rnd.random() < .7:
            props['name'] = rnd.choice(names + ['nosuch'])
        if rnd.random() < .3:
            props['waiting'] = rnd.choice([True, False, 'yes', 1])
        if cmd in ('set', 'add') and rnd.random() < .7:
            props['options'] = rnd.choice([{'numprocesses': 2}, {'numprocesses': 'x'}, {'uid': 'nosuchuser_zz'},
                                           {'nosuch': 1}, {'warmup_delay': 0.1, 'env': {'A': 'b'}}, 'str', [1], None,
                                           {'hooks.before_start': 'no.such.fn'}, {'stdout_stream.class': 'NoSuch'},
                                           {'graceful_timeout': 0.1}, {'singleton': True, 'numprocesses': 3}])
        if cmd == 'add':
            props.setdefault('cmd', 'w_added')
            if rnd.random() < .5:
                props['name'] = rnd.choice(['new%d' % rnd.randint(0, 5), '', 'a', 'A'])
        mid = 'c-%d' % rnd.randint(0, 10 ** 6)
        d = {'id': mid, 'command': cmd, 'properties': props}
        if rnd.random() < .1:
            d['msg_type'] = 'cast'
        return json.dumps(d).encode(), {'cls': 'command', 'id': mid, 'cast': d.get('msg_type') == 'cast', 'cmd': cmd,
                                         'props': props}
    # operations made to fail after the immediate reply path
    mid = 'l-%d' % rnd.randint(0, 10 ** 6)
    cmd, props = rnd.choice([
        ('incr', {'name': 'a', 'nb': 'x', 'waiting': True}), ('decr', {'name': 'a', 'nb': None, 'waiting': True}),
        ('incr', {'name': 'a', 'nb': [1], 'waiting': True}), ('incr', {'name': 'a', 'nb': 2.5, 'waiting': True}),
        ('start', {'name': 'h', 'waiting': True}), ('start', {'name': 'h'}), ('restart', {'name': 'h', 'waiting': True}),
        ('start', {'name': 'e', 'waiting': True}), ('reload', {'name': 'e', 'waiting': True}),
        ('set', {'name': 'a', 'options': {'uid': 'nosuchuser_zz'}, 'waiting': True}),
        ('set', {'name': 'g', 'options': {'numprocesses': 5}, 'waiting': True}),
        ('incr', {'name': 'a', 'nb': 10 ** 9, 'waiting': True}) if False else ('incr', {'name': 'a', 'nb': 1, 'waiting': True}),
        ('reload', {'name': 'a', 'waiting': True}), ('stop', {'name': 'a', 'waiting': True}),
        ('start', {'name': 'a', 'waiting': True}), ('rm', {'name': 'b', 'waiting': True}),
        ('add', {'name': 'late', 'cmd': 'w_late', 'start': True, 'waiting': True}),
        ('reloadconfig', {'waiting': True}), ('restart', {'name': 'a*', 'waiting': True}),
    ])
    return json.dumps({'id': mid, 'command': cmd, 'properties': props}).encode(), \
        {'cls': 'latefail', 'id': mid, 'cast': False, 'cmd': cmd, 'props': props}


def plan(tier, seed):
    n = 1600 if tier == 'quick' else 60000
    out = [{'kind': 'daemon', 'seed': seed, 'idx': i} for i in range(n)]
    m = 48 if tier == 'quick' else 600
    out += [{'kind': 'client', 'seed': seed, 'idx': i} for i in range(m)]
    # real circusd, real ZeroMQ: requests of every size up to a few MiB get exactly one reply each
    out += [{'kind': 'live-sizes', 'seed': seed, 'idx': i} for i in range(2 if tier == 'quick' else 10)]
    # a request whose synchronous part runs a hook that calls sys.exit(): still answered (once), next request served
    out += [{'kind': 'sysexit-hook', 'seed': seed, 'idx': i} for i in range(4 if tier == 'quick' else 24)]
    return out


def live_sizes(spec, res):
    import zmq
    from vlib import live
    rnd = rng_for(spec['seed'], 'C06-live', spec['idx'])
    d = live.Daemon('', strace=False)
    d.ini = (d.header(check_delay=1.0) + '[watcher:a]\ncmd = %s\nnumprocesses = 1\ngraceful_timeout = 1\n'
             'copy_env = True\n\n' % live.worker_cmd({'log': '@LOG@'})).replace('@DIR@', d.dir).replace('@LOG@', d.logdir)
    with open(d.ini_path, 'w') as f:
        f.write(d.ini)
    ctx = zmq.Context()
    try:
        d.start()
        if not d.wait_ready(20):
            res.inconclusive.append('live: daemon not ready: ' + d.output()[-200:])
            return
        sizes = [10, 1000, 30000, 65000, 65536, 66000, 70000, 300000] + [rnd.randint(60000, 3000000) for _ in range(3)]
        rnd.shuffle(sizes)
        for n, size in enumerate(sizes):
            sock = ctx.socket(zmq.DEALER)
            sock.setsockopt(zmq.LINGER, 0)
            sock.connect(d.endpoint)
            mid = 'big-%d-%d' % (spec['idx'], n)
            how = rnd.choice(['env', 'name', 'cmd', 'extra'])
            props = {'name': 'w%d' % n, 'cmd': 'sleep 30', 'options': {}}
            if how == 'env':
                props['options'] = {'env': {'K': 'x' * size}}
            elif how == 'name':
                props['name'] = 'n' * size
            elif how == 'cmd':
                props['cmd'] = 'sleep 30 ' + 'y' * size
            else:
                props['padding'] = 'z' * size
            sock.send(json.dumps({'id': mid, 'command': 'add', 'properties': props}).encode())
            got = []
            t_end = time.time() + 8
            while time.time() < t_end:
                if sock.poll(200):
                    try:
                        got.append(json.loads(sock.recv()))
                    except ValueError:
                        got.append('not-json')
                    t_end = min(t_end, time.time() + 0.6)       # a duplicate would follow at once
            sock.close()
            res.obs['live_requests_by_size'] += 1
            res.hist['live_request_kib'][size // 1024 // 64 * 64] += 1
            mine = [g for g in got if isinstance(g, dict) and g.get('id') == mid]
            if len(mine) != 1:
                res.violation('C06/live:reply-count[request-of-%s]:%d-instead-of-1'
                              % ('more-than-64KiB' if size > 60000 else 'ordinary-size', len(mine)),
                              'add with a %d byte %s got %d replies bearing its id within 8 s (all frames: %d)'
                              % (size, how, len(mine), len(got)))
            else:
                res.nontrivial(repr(('live-size', size // 65536, how, mine[0].get('status'))))
            # the daemon still answers the next request
        r = d.call('numwatchers')
        if r.get('status') != 'ok':
            res.violation('C06/live:daemon-stopped-answering', 'after the size sweep numwatchers answered %s' % str(r)[:100])
        res.sample = {'live': True, 'request_sizes': sizes}
        # requests that end the loop they are served by: a restart of the whole arbiter and the final quit, both sent
        # with waiting -- each gets exactly one reply, and the restarted arbiter answers the request in between
        for n, (cmd, props) in enumerate([('restart', {'waiting': True}), ('numwatchers', {}), ('quit', {'waiting': True})]):
            sock = ctx.socket(zmq.DEALER)
            sock.setsockopt(zmq.LINGER, 0)
            sock.connect(d.endpoint)
            mid = 'end-%d-%d' % (spec['idx'], n)
            sock.send(json.dumps({'id': mid, 'command': cmd, 'properties': props}).encode())
            got = []
            t_end = time.time() + 15
            while time.time() < t_end:
                if sock.poll(200):
                    try:
                        got.append(json.loads(sock.recv()))
                    except ValueError:
                        got.append('not-json')
                    t_end = min(t_end, time.time() + 1.0)
            sock.close()
            mine = [g for g in got if isinstance(g, dict) and g.get('id') == mid]
            res.obs['live_loop_ending_requests'] += 1
            if len(mine) != 1:
                res.violation('C06/live:reply-count[%s%s]:%d-instead-of-1' % (cmd, '-waiting' if props else '', len(mine)),
                              '%s %s to a real circusd got %d replies bearing its id within 15 s (all frames: %d)'
                              % (cmd, props, len(mine), len(got)))
                break
            if cmd == 'restart':
                time.sleep(0.5)
        else:
            rc = d.wait_exit(20)
            if rc != 0:
                res.inconclusive.append('live: circusd exit status %s after quit (C08 owns)' % rc)
    finally:
        ctx.destroy(linger=0)
        d.cleanup()


def sysexit_hook(spec, res):
    rnd = rng_for(spec['seed'], 'C06-sysexit', spec['idx'])
    hookname = ['before_start', 'before_spawn', 'after_spawn', 'after_start'][spec['idx'] % 4]
    h = {'watchers': [{'name': 'a', 'numprocesses': 1, 'graceful_timeout': 0.1},
                      {'name': 'x', 'numprocesses': 1, 'autostart': False, 'graceful_timeout': 0.1,
                       'hooks': {hookname: ['exit', False]}}]}
    w = simhist.new_world(h)
    nv = len(res.viol)

    @gen.coroutine
    def go():
        yield simhist.boot(w, h)
        yield w.settle(30)
        cmd = rnd.choice(['start', 'restart', 'reload'])
        waiting = rnd.random() < .5
        n0 = len(w.stream.frames)
        mid = w.req(cmd, name='x', waiting=waiting)
        yield w.settle(60)
        mine = [b for _, _, _, b in w.replies() if isinstance(b, dict) and b.get('id') == mid]
        res.obs['requests_running_a_hook_that_calls_sys_exit'] += 1
        if w.sent[mid].get('escaped') or len(mine) != 1:
            res.violation('C06/reply-count[hook-calls-sys.exit]:%d-instead-of-1' % len(mine),
                          '%s x (waiting=%s) with a %s hook that calls sys.exit(): %d replies, exception out of '
                          'handle_message: %s' % (cmd, waiting, hookname, len(mine), w.sent[mid].get('escaped')))
            return
        pr = yield w.call('numwatchers')
        if not isinstance(pr, dict) or pr.get('status') != 'ok':
            res.violation('C06/next-request-not-served[hook-calls-sys.exit]', 'after it numwatchers answered %s' % str(pr)[:100])
        res.nontrivial(repr(('sysexit', hookname, cmd, waiting, mine[0].get('status'))))
    try:
        w.run(go)
        if w.daemon_exited:
            res.obs['daemon_left_through_sys_exit_in_a_loop_callback(not judged)'] += 1
        for v in res.viol[nv:]:
            v['spec'] = dict(spec)
    finally:
        w.close()
    res.sample = {'case': 'hook calls sys.exit()', 'hook': hookname}


def run_case(spec):
    res = CaseResult()
    if spec['kind'] == 'sysexit-hook':
        sysexit_hook(spec, res)
        return res
    if spec['kind'] == 'live-sizes':
        live_sizes(spec, res)
        for v in res.viol:
            v['spec'] = spec
        return res
    if spec['kind'] == 'client':
        client_case(spec, res)
        return res
    rnd = rng_for(spec['seed'], 'C06', spec['idx'])
    h = {'watchers': [{'name': 'a', 'numprocesses': 2, 'graceful_timeout': 0.2, 'beh': [{'15': ['die', 0.05]}]},
                      {'name': 'b', 'numprocesses': 1, 'graceful_timeout': 0.1},
                      {'name': 'g', 'numprocesses': 1, 'singleton': True, 'graceful_timeout': 0.1},
                      {'name': 'h', 'numprocesses': 1, 'autostart': False, 'graceful_timeout': 0.1,
                       'hooks': {'after_start': ['raise', False]}},
                      {'name': 'e', 'numprocesses': 1, 'autostart': False, 'max_retry': 1, 'graceful_timeout': 0.1},
                      # rarely used options that change what an operation returns
                      {'name': 'u', 'numprocesses': 2, 'send_hup': True, 'graceful_timeout': 0.1},
                      {'name': 'r', 'numprocesses': 1, 'respawn': False, 'graceful_timeout': 0.1,
                       'stop_children': True, 'max_age': 1000}],
         'frames': spec.get('frames')}
    w = simhist.new_world(h)
    nv = len(res.viol)
    try:
        w.run(lambda: _daemon(w, h, rnd, res))
        for v in res.viol[nv:]:
            v['spec'] = {'kind': 'daemon', 'seed': spec['seed'], 'idx': spec['idx'], 'frames': v['detail'].pop('_frames')}
        if w.breach():
            res.inconclusive.append('containment breach %s' % (w.breach()[:2],))
    finally:
        w.close()
    return res


@gen.coroutine
def _daemon(w, h, rnd, res):
    k = w.kernel
    yield simhist.boot(w, h)
    yield w.settle(30)
    cmds = commands()
    names = ['a', 'b', 'g', 'h', 'e', 'q', 'u', 'r']

    class Sink:                     # embedding-API style stream object: not JSON-serialisable
        def __call__(self, data):
            pass
    try:
        w.arb.add_watcher('q', 'w_q', stdout_stream={'stream': Sink()}, graceful_timeout=0.1)
    except Exception:
        names.remove('q')
    frames = h.get('frames')
    n = 14 if frames is None else len(frames)
    sent = []
    for i in range(n):
        if w.stalled is not None or not w.arb.ctrl.started:
            break
        if frames is None:
            payload, meta = gen_frame(rnd, cmds, names, k.live())
            # spawn failures for the exec-failure watcher
            if meta.get('props', {}).get('name') == 'e':
                k.spawn_fail = set(range(k.spawn_attempts + 1, k.spawn_attempts + 3))
        else:
            payload, meta = frames[i][0].encode('latin1'), frames[i][1]
        sent.append([payload.decode('latin1'), meta])
        n0 = len(w.stream.frames)
        nexc = len(w.loop_exceptions)
        cid = b'client-%d' % i
        rec = w.send_raw(payload, cid=cid)
        yield w.settle(200)
        if w.stalled is not None:
            res.obs['stalled(C05 owns)'] += 1
            break
        new = w.stream.frames[n0:]
        mine = [f for f in new]
        res.obs['frames_sent'] += 1
        res.obs['class:' + meta['cls']] += 1
        cls = meta['cls']
        ctx = '%s frame %r' % (cls, payload[:120])
        detail = {'_frames': list(sent)}
        if rec.get('escaped'):
            res.violation('C06/exception-escaped-handle_message[%s]' % frame_class(payload, meta),
                          '%s: %s escaped from handle_message (pyzmq would log it; the client waits forever)'
                          % (ctx, rec['escaped']), **detail)
        npairs = len(mine) // 2
        want = 0 if meta.get('cast') else 1
        if len(mine) % 2 or npairs != want:
            if not rec.get('escaped'):
                swallowed = [e for e in w.loop_exceptions[nexc:] if 'TransformableFuture' in e[4] or 'dispatch' in e[4]]
                mech = frame_class(payload, meta)
                if npairs == 0 and any('TransformableFuture._internal_callback' in e[4] for e in swallowed):
                    mech = 'waiting-operation-raised:TransformableFuture-re-raises'
                if len(mine) % 2:
                    mech += ',odd-number-of-frames'
                res.violation('C06/reply-count[%s]:%d-instead-of-%d' % (mech, npairs, want),
                              '%s: %d reply frames written, expected %d pair(s); swallowed exceptions: %s'
                              % (ctx, len(mine), want, swallowed[-1:] if swallowed else 'none'), **detail)
        for j in range(0, len(mine) - 1, 2):
            if mine[j][2] != cid:
                res.violation('C06/reply-to-wrong-client', '%s: reply envelope %r, request came from %r'
                              % (ctx, mine[j][2], cid), **detail)
            try:
                body = json.loads(mine[j + 1][2])
            except Exception:
                res.violation('C06/reply-not-json', '%s: reply %r' % (ctx, mine[j + 1][2][:80]), **detail)
                continue
            if not isinstance(body, dict):
                res.violation('C06/reply-not-object', '%s: reply %r' % (ctx, body), **detail)
                continue
            okstat = {'ok', 'error'}
            if meta.get('cmd') and str(meta['cmd']).lower() == 'status':
                okstat |= {'active', 'stopped', 'starting', 'stopping'}
            if body.get('status') not in okstat:
                res.violation('C06/reply-status-field', '%s: status=%r' % (ctx, body.get('status')), **detail)
            if body.get('id') != meta.get('id'):
                res.violation('C06/reply-id-mismatch', '%s: reply id %r, request id %r' % (ctx, body.get('id'), meta.get('id')),
                              **detail)
            res.hist['reply_status_by_class'][cls + ':' + str(body.get('status'))] += 1
        res.nontrivial(repr((frame_class(payload, meta), meta.get('cmd'), npairs, bool(rec.get('escaped')))))
        # the daemon still serves the next request
        if w.arb.ctrl.started:
            pm = w.req('numwatchers')
            pr = w.reply(pm)
            res.obs['probes'] += 1
            if not isinstance(pr, dict) or pr.get('status') != 'ok':
                res.violation('C06/daemon-unusable-after-frame[%s]' % frame_class(payload, meta),
                              'after %s the numwatchers probe answered %s' % (ctx, str(pr)[:120]), **detail)
    if res.sample is None and sent:
        res.sample = {'frames': [s[0][:100] for s in sent[:6]]}


def frame_class(payload, meta):
    """mechanism-level class of a frame (used in known-finding keys)"""
    cls = meta['cls']
    if cls == 'bytes':
        return 'empty-or-whitespace-payload' if not payload.strip() else 'bytes'
    if cls == 'json-non-object':
        return 'json-non-object'
    if cls == 'fields':
        try:
            d = json.loads(payload)
        except Exception:
            return 'fields'
        c = d.get('command')
        if not isinstance(c, str):
            return 'command-missing-or-not-a-string'
        return 'fields'
    if cls == 'latefail':
        p = meta.get('props', {})
        if meta.get('cmd') in ('incr', 'decr') and not isinstance(p.get('nb', 1), (int, float)):
            return 'waiting-operation-raises[%s nb not a number]' % meta['cmd']
        return 'waiting-operation[%s %s]' % (meta.get('cmd'), p.get('name'))
    if cls == 'command':
        return 'command[%s]' % meta.get('cmd')
    return cls


# ------------------------------------------------------------------ client half
SCRIPT_ITEMS = ['stale', 'foreign', 'noid', 'right', 'dup', 'nullid']


class Peer(threading.Thread):
    """scripted ROUTER: for the k-th request it receives, sends the k-th script"""

    def __init__(self, ctx, endpoint, scripts):
        super().__init__(daemon=True)
        import zmq
        self.sock = ctx.socket(zmq.ROUTER)
        self.sock.linger = 0
        self.sock.bind(endpoint)
        self.scripts = scripts
        self.seen = []
        self.stop_flag = False

    def run(self):
        import zmq
        poller = zmq.Poller()
        poller.register(self.sock, zmq.POLLIN)
        k = 0
        last_right = None
        while not self.stop_flag and k < len(self.scripts):
            if not dict(poller.poll(50)):
                continue
            ident, msg = self.sock.recv_multipart()
            req = json.loads(msg)
            self.seen.append(req.get('id'))
            for item in self.scripts[k]:
                if item == 'stale':
                    body = {'status': 'ok', 'id': last_right or 'deadbeef', 'marker': 'stale'}
                elif item == 'foreign':
                    body = {'status': 'ok', 'id': 'f' * 32, 'marker': 'foreign'}
                elif item == 'noid':
                    body = {'status': 'ok', 'marker': 'noid'}
                elif item == 'nullid':
                    body = {'status': 'ok', 'id': None, 'marker': 'nullid'}
                elif item in ('right', 'dup'):
                    body = {'status': 'ok', 'id': req.get('id'), 'marker': 'right', 'call': k}
                else:
                    continue
                self.sock.send_multipart([ident, json.dumps(body).encode()])
                if item == 'dup':
                    self.sock.send_multipart([ident, json.dumps(body).encode()])
            last_right = req.get('id')
            k += 1
        time.sleep(0.05)
        self.sock.close()


def client_case(spec, res):
    import zmq
    from circus.client import CircusClient
    from circus.exc import CallError
    rnd = rng_for(spec['seed'], 'C06-client', spec['idx'])
    d = tempfile.mkdtemp(prefix='verif-c06-')
    ep = 'ipc://%s/s' % d
    ncalls = rnd.randint(2, 5)
    scripts = []
    for _ in range(ncalls):
        wrong = [rnd.choice(['stale', 'foreign', 'noid', 'nullid']) for _ in range(rnd.randint(0, 4))]
        end = rnd.choice(['right', 'right', 'dup', 'silence'])
        scripts.append(wrong + ([end] if end != 'silence' else []))
    ctx = zmq.Context()
    peer = Peer(ctx, ep, scripts)
    peer.start()
    use_async = spec['idx'] % 3 == 2
    # a caller that sends one message object again and again (a polling loop) versus a fresh mapping per call
    reuse = rnd.random() < .4
    shared = {'command': 'list', 'properties': {}}
    res.obs['client_cases_reusing_one_message_object'] += int(reuse)
    try:
        if not use_async:
            import types
            import circus.client as cc
            # if the client code measures time with the wall clock, that clock is stepped while a call waits (a
            # module that does not use `time` has nothing to rebind: its waiting is the poller's)
            step = {'off': 0.0}
            if hasattr(cc, 'time') and isinstance(cc.time, types.ModuleType):
                class _T(types.ModuleType):
                    def time(self):
                        return time.time() + step['off']

                    def __getattr__(self, n):
                        return getattr(time, n)
                cc.time = _T('time')
                res.obs['client_cases_with_a_stepped_wall_clock'] += 1
            outs = []

            def calls():
                cl = CircusClient(context=ctx, endpoint=ep, timeout=0.25)
                for k, script in enumerate(scripts):
                    t0 = time.time()
                    if k % 2:
                        threading.Timer(0.05, lambda: step.__setitem__('off', step['off'] + rnd.choice([-3600.0, 3600.0]))).start()
                    try:
                        r = cl.call(shared if reuse else {'command': 'list', 'properties': {}})
                        out = ('reply', r)
                    except CallError as e:
                        out = ('callerror', str(e))
                    except Exception as e:          # noqa
                        out = ('exception', type(e).__name__ + ': ' + str(e))
                    outs.append((k, script, out, time.time() - t0))
                cl.stop()
            th = threading.Thread(target=calls, daemon=True)
            th.start()
            th.join(len(scripts) * 1.5 + 8)
            for k, script, out, took in outs:
                judge_client(res, 'CircusClient', k, script, out, peer, took)
                if took > 3.0:
                    res.violation('C06/client-call-slow:CircusClient', 'call %d with peer script %s returned after %.1fs '
                                  '(timeout 0.25 s)' % (k, script, took))
            if th.is_alive():
                k = len(outs)
                res.violation('C06/client-call-never-returned:CircusClient',
                              'call %d (peer script %s, timeout 0.25 s) had not returned after %.0f s'
                              % (k, scripts[k] if k < len(scripts) else '?', len(scripts) * 1.5 + 8))
        else:
            async_client(res, ctx, ep, scripts, peer, shared if reuse else None)
    finally:
        peer.stop_flag = True
        peer.join(2)
        ctx.destroy(linger=0)
        shutil.rmtree(d, ignore_errors=True)
    res.sample = {'client': 'AsyncCircusClient' if use_async else 'CircusClient', 'reply_scripts': scripts,
                  'one_message_object_reused': reuse}


def judge_client(res, which, k, script, out, peer, took):
    res.obs['client_calls:' + which] += 1
    has_right = 'right' in script or 'dup' in script
    sent_id = peer.seen[k] if k < len(peer.seen) else None
    key = '%s[%s]' % (which, ','.join(sorted(set(script))) or 'silence')
    if out[0] == 'reply':
        r = out[1]
        if not isinstance(r, dict) or r.get('id') != sent_id or r.get('marker') != 'right' or r.get('call') != k:
            res.violation('C06/client-returned-wrong-reply:' + which,
                          'call %d (id %s) with peer script %s returned %r' % (k, sent_id, script, r))
        elif not has_right:
            res.violation('C06/client-returned-without-right-reply:' + which, 'script %s returned %r' % (script, r))
    elif out[0] == 'callerror':
        if has_right:
            mech = ''
            if which == 'AsyncCircusClient' and script[0] not in ('right', 'dup'):
                mech = '[wrong-replies-first:stale-on_recv-callback]'
            res.violation('C06/client-missed-its-reply:' + which + mech, 'script %s (right reply was sent) raised CallError(%s)'
                          % (script, out[1]))
        elif 'Timed out' not in out[1]:
            res.violation('C06/client-error-not-timeout:' + which, 'silence after %s raised CallError(%s)' % (script, out[1]))
    else:
        res.violation('C06/client-raised:' + which, 'script %s raised %s' % (script, out[1]))
    if any(x in script for x in ('stale', 'foreign', 'noid', 'nullid', 'dup')):
        res.nontrivial(key + ':' + out[0])


def async_client(res, ctx, ep, scripts, peer, shared=None):
    import asyncio
    from tornado import ioloop
    from circus.client import AsyncCircusClient
    aloop = asyncio.new_event_loop()
    asyncio.set_event_loop(aloop)
    loop = ioloop.IOLoop.current()
    outs = []

    @gen.coroutine
    def go():
        cl = AsyncCircusClient(context=ctx, endpoint=ep, timeout=0.25)
        for k, script in enumerate(scripts):
            if 'right' not in script and 'dup' not in script:
                outs.append(None)           # the async client would wait forever: not judged (no timeout of its own)
                res.ambiguous['AsyncCircusClient has no timeout: silence script skipped'] += 1
                break
            try:
                r = yield gen.with_timeout(loop.time() + 3.0,
                                          cl.call(shared if shared is not None else {'command': 'list', 'properties': {}}))
                outs.append(('reply', r))
            except gen.TimeoutError:
                outs.append(('callerror', 'harness watchdog: no return within 3 s'))
            except Exception as e:          # noqa
                outs.append(('exception', type(e).__name__ + ': ' + str(e)))
        cl.stop()
    try:
        loop.run_sync(go)
    finally:
        loop.close(all_fds=True)
        asyncio.set_event_loop(None)
    for k, out in enumerate(outs):
        if out is not None:
            judge_client(res, 'AsyncCircusClient', k, scripts[k], out, peer, 0)


def starved(merged, tier):
    o = merged['obs']
    out = []
    if o.get('frames_sent', 0) < 5000:
        out.append('only %d frames' % o.get('frames_sent', 0))
    if o.get('client_calls:CircusClient', 0) < 50:
        out.append('only %d sync client calls' % o.get('client_calls:CircusClient', 0))
    if o.get('client_calls:AsyncCircusClient', 0) < 20:
        out.append('only %d async client calls' % o.get('client_calls:AsyncCircusClient', 0))
    return out


def precheck():
    from vlib.calibrate import calibrate
    return calibrate()
