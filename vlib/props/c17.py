"""C17 — captured worker output is delivered complete, in order, once, correctly labelled.

Engine LIVE in-process: a real Arbiter on a real tornado loop inside the check process, real probe
workers writing seeded, self-describing records to stdout and stderr through real pipes in
scripted chunk sizes, a collecting stream object per channel; meanwhile sibling watchers are
restarted / reloaded / SIGKILLed for many generations.
"""
import collections
import json
import os
import shutil
import signal
import tempfile
import time

from vlib import live
from vlib.common import CaseResult, rng_for
from vlib.live_worker import record

ID = 'C17'
LEVEL = 'exploration'
RULE = ('per scenario: 1-6 concurrent writers, each with its own schedule of 60-200 records per channel in chunk '
        'sizes {1, 7, 64, 1023, 1024, 1025, 4096, 70000} and pauses {0,0,1,5} ms on stdout and stderr; one writer '
        'closes a pipe early and keeps running; a sibling watcher (2 workers) is restarted / reloaded / SIGKILLed '
        '25 (quick) or 120 (thorough) times meanwhile. non-trivial = a (pid, channel) stream compared byte for '
        'byte; distinct = (worker schedule, channel)')
ASSUMPTIONS = ['the in-process Arbiter runs on a real tornado loop with real pipes; only workers that keep running are '
               'judged (output written in the last instants of a worker being stopped is not demanded)',
               'descriptor leak is measured as the growth of /proc/self/fd between generation 10 and the last one']
BUDGET = {'quick': 400, 'thorough': 2400}
MAX_SHARDS = 6
CASE_TIMEOUT = 300
SIZES = [1, 7, 64, 1023, 1024, 1025, 4096, 70000]


def plan(tier, seed):
    n = 3 if tier == 'quick' else 12
    return [{'seed': seed, 'idx': i, 'gens': 25 if tier == 'quick' else 120} for i in range(n)]


class Collector:
    def __init__(self, channel, sink, late=None):
        self.channel = channel
        self.sink = sink
        self.closed = False
        self.late = late

    def __call__(self, data):
        if self.closed:
            # a stream that was replaced and closed (set stdout_stream.*): what is handed to it now is lost, as it
            # is with a closed FileStream
            if self.late is not None:
                self.late[(data['pid'], data['name'], self.channel)] += len(data['data'])
            return
        self.sink[(data['pid'], data['name'], self.channel)].append(data['data'])

    def close(self):
        self.closed = True


class BothCollector(Collector):
    """ONE stream object configured for both channels of a watcher (two handles on one log): files every chunk under
    the channel name it is tagged with"""

    def __call__(self, data):
        self.sink[(data['pid'], data['name'], data['name'])].append(data['data'])


class EqCollector(BothCollector):
    """two DISTINCT stream objects whose configurations compare equal (what two identical `[watcher]` stream
    sections give): each channel still has its own stream"""

    def __call__(self, data):
        if self.closed:
            if self.late is not None:
                self.late[(data['pid'], data['name'], data['name'])] += len(data['data'])
            return
        self.sink[(data['pid'], data['name'], data['name'])].append(data['data'])

    def __eq__(self, other):
        return isinstance(other, EqCollector)

    def __hash__(self):
        return 17


def run_case(spec):
    res = CaseResult()
    rnd = rng_for(spec['seed'], 'C17', spec['idx'])
    d = tempfile.mkdtemp(prefix='vo', dir='/tmp')
    logdir = os.path.join(d, 'w')
    os.mkdir(logdir)
    nv = len(res.viol)
    marker = 'c17%d' % os.getpid()
    os.environ['VERIF_LIVE'] = marker
    try:
        _scenario(spec, rnd, d, logdir, res)
    finally:
        for p in live.tagged_pids(marker):
            if p != os.getpid():
                try:
                    os.kill(p, 9)
                except OSError:
                    pass
        for v in res.viol[nv:]:
            v['spec'] = spec
        shutil.rmtree(d, ignore_errors=True)
    return res


def _scenario(spec, rnd, d, logdir, res):
    import asyncio
    import logging
    from tornado import gen, ioloop
    import zmq
    from circus.arbiter import Arbiter
    from circus.watcher import Watcher
    import circus.stream.redirector as redirector
    for n in ('circus', 'tornado', 'asyncio'):
        logging.getLogger(n).setLevel(logging.CRITICAL)
    # observation-only counter on the redirector handler
    calls = collections.Counter()
    zero_reads = collections.Counter()
    orig_call = redirector.Redirector.Handler.__call__

    def counted(self, fd, events):
        calls[(self.process.pid, self.name)] += 1
        return orig_call(self, fd, events)
    redirector.Redirector.Handler.__call__ = counted
    fd0_free = spec['idx'] % 3 == 1
    # a daemon with very many descriptors open (many watchers, sockets, log files): the pipes of a writer started
    # late get descriptor numbers above 1024
    high_fds = spec['idx'] % 3 == 2
    if high_fds:
        import resource
        soft, hard = resource.getrlimit(resource.RLIMIT_NOFILE)
        if soft != resource.RLIM_INFINITY and soft < 4096:
            try:
                resource.setrlimit(resource.RLIMIT_NOFILE, (4096 if hard == resource.RLIM_INFINITY else min(hard, 4096), hard))
            except (ValueError, OSError):
                pass
            soft = resource.getrlimit(resource.RLIMIT_NOFILE)[0]
            if soft != resource.RLIM_INFINITY and soft < 2048:
                high_fds = False
                res.obs['scenarios_with_descriptors_above_1024_not_possible_here'] += 1
    sink = collections.defaultdict(list)
    late = collections.Counter()
    nwriters = rnd.randint(1, 6)
    scripts = []
    closer = rnd.randrange(nwriters)
    for i in range(nwriters):
        sc = {}
        for ch in ('stdout', 'stderr'):
            nrec = rnd.randint(60, 200)
            sc[ch] = [[rnd.choice(SIZES[:6] if rnd.random() < .9 else SIZES), rnd.choice([0, 0, 1, 5])] for _ in range(nrec)]
        scripts.append(sc)
    # a writer whose last output is a burst of exactly two read buffers followed by silence
    scripts.append({'stdout': [[64, 300], [2048, 0]], 'stderr': [[7, 300], [1024, 0]]})
    nwriters += 1
    # descriptor 0 must be somebody else's when the loop is created (an earlier scenario of this process may have
    # closed it): the loop's own epoll descriptor must never be the one that is closed below
    try:
        os.fstat(0)
    except OSError:
        fd_ = os.open('/dev/null', os.O_RDONLY)
        if fd_ != 0:
            os.dup2(fd_, 0)
            os.close(fd_)
    aloop = asyncio.new_event_loop()
    asyncio.set_event_loop(aloop)
    loop = ioloop.IOLoop.current()
    ctx = zmq.Context()
    watchers = []
    for i, sc in enumerate(scripts):
        wspec = {'log': logdir, 'out': {'stdout': sc['stdout'], 'stderr': sc['stderr']}}
        if i == closer:
            wspec['out']['close_after'] = 'stdout'
        watchers.append(Watcher('wr%d' % i, live.PY, args=['-S', live.WORKER, json.dumps(wspec)], numprocesses=1,
                                stdout_stream={'stream': Collector('stdout', sink)},
                                stderr_stream={'stream': Collector('stderr', sink)},
                                copy_env=True, graceful_timeout=1, loop=loop))
    # a writer whose watcher captures stderr only (stdout goes wherever the daemon's goes)
    eo_script = [[rnd.choice(SIZES[:6]), rnd.choice([0, 1, 5])] for _ in range(60)]
    watchers.append(Watcher('wr_eo', live.PY, args=['-S', live.WORKER, json.dumps({
        'log': logdir, 'out': {'stdout': [[7, 5]] * 5, 'stderr': eo_script}})], numprocesses=1,
        stderr_stream={'stream': Collector('stderr', sink)}, copy_env=True, graceful_timeout=1, loop=loop))
    scripts.append({'stdout': None, 'stderr': eo_script})
    # a writer whose two channels go to one and the same stream object
    both_script = {ch: [[rnd.choice(SIZES[:6]), rnd.choice([0, 1, 5])] for _ in range(60)] for ch in ('stdout', 'stderr')}
    both = BothCollector('both', sink)
    watchers.append(Watcher('wr_both', live.PY, args=['-S', live.WORKER, json.dumps({
        'log': logdir, 'out': {'stdout': both_script['stdout'], 'stderr': both_script['stderr']}})], numprocesses=1,
        stdout_stream={'stream': both}, stderr_stream={'stream': both}, copy_env=True, graceful_timeout=1, loop=loop))
    scripts.append({'stdout': both_script['stdout'], 'stderr': both_script['stderr'], 'name': 'wr_both'})
    # a writer whose two channels have equal configurations -- and a stream each
    eq_script = {ch: [[rnd.choice(SIZES[:6]), rnd.choice([1, 5, 20])] for _ in range(120)] for ch in ('stdout', 'stderr')}
    w_eq = Watcher('wr_eq', live.PY, args=['-S', live.WORKER, json.dumps({
        'log': logdir, 'out': {'stdout': eq_script['stdout'], 'stderr': eq_script['stderr']}})], numprocesses=1,
        stdout_stream={'stream': EqCollector('eq', sink, late)}, stderr_stream={'stream': EqCollector('eq', sink, late)},
        copy_env=True, graceful_timeout=1, loop=loop)
    watchers.append(w_eq)
    scripts.append({'stdout': eq_script['stdout'], 'stderr': eq_script['stderr'], 'name': 'wr_eq'})
    # a writer that is started later, right after descriptor 0 became free in the daemon (a daemon whose standard
    # input was closed): its pipe gets descriptor number 0
    late_script = {ch: [[rnd.choice(SIZES[:6]), rnd.choice([0, 1, 5])] for _ in range(50)] for ch in ('stdout', 'stderr')}
    late_w = None
    if fd0_free or high_fds:
        late_w = Watcher('wr_late', live.PY, args=['-S', live.WORKER, json.dumps({
            'log': logdir, 'out': {'stdout': late_script['stdout'], 'stderr': late_script['stderr']}})], numprocesses=1,
            stdout_stream={'stream': Collector('stdout', sink)}, stderr_stream={'stream': Collector('stderr', sink)},
            copy_env=True, graceful_timeout=1, autostart=False, loop=loop)
        watchers.append(late_w)
        scripts.append({'stdout': late_script['stdout'], 'stderr': late_script['stderr'], 'name': 'wr_late'})
    # the sibling's workers either obey the stop signal or sit out the grace period (SIGKILL escalation)
    sib_stubborn = spec['idx'] % 2 == 0
    sib = Watcher('sib', live.PY, args=['-S', live.WORKER, json.dumps(dict({'log': logdir, 'out': {
        'stdout': [[64, 5]] * 50, 'stderr': [[7, 5]] * 50}}, **({'ignore': [15]} if sib_stubborn else {})))], numprocesses=2,
        stdout_stream={'stream': Collector('stdout', sink)}, stderr_stream={'stream': Collector('stderr', sink)},
        copy_env=True, graceful_timeout=0.5, loop=loop)
    # a worker that exits by itself while a helper child still holds its pipes open; its successor
    # (respawned by the periodic check, usually on the same descriptor numbers) is a writer
    dy_script = {ch: [[rnd.choice(SIZES[:6]), rnd.choice([0, 1, 5])] for _ in range(40)] for ch in ('stdout', 'stderr')}
    dys = []
    for j in range(3):
        dys.append(Watcher('dy%d' % j, live.PY, args=['-S', live.WORKER, json.dumps({
            'log': logdir, 'once_marker': os.path.join(logdir, 'dy%d.marker' % j), 'fork': 1,
            'self_exit': [0.3 + 0.15 * j, 0],
            'then': {'out': {'stdout': dy_script['stdout'], 'stderr': dy_script['stderr']}}})], numprocesses=1,
            stdout_stream={'stream': Collector('stdout', sink)}, stderr_stream={'stream': Collector('stderr', sink)},
            copy_env=True, graceful_timeout=0.5, loop=loop))
    info = {'fds': {}}
    # observation only: a pipe of a new worker that cannot be registered because the loop still holds a handler for
    # that descriptor number (left over from a worker that is gone)
    orig_add_handler = loop.add_handler

    def add_handler(fd, handler, events):
        try:
            return orig_add_handler(fd, handler, events)
        except ValueError as e:
            info.setdefault('add_handler_errors', []).append(str(e)[:80])
            raise
    loop.add_handler = add_handler
    arb = Arbiter(watchers + [sib] + dys, 'ipc://%s/ctl' % d, 'ipc://%s/pub' % d, check_delay=0.2, context=ctx, loop=loop)

    def nfds():
        return len(os.listdir('/proc/self/fd'))

    import threading
    hb = {'t': time.monotonic(), 'max_gap': 0.0, 'blocked': None, 'stop': False}

    def beat():
        now = time.monotonic()
        hb['max_gap'] = max(hb['max_gap'], now - hb['t'])
        hb['t'] = now
        if not hb['stop']:
            loop.call_later(0.05, beat)

    def watchdog():
        # the loop thread cannot report its own blocking: a second thread watches the heartbeat and, when the
        # loop has been silent for 3 s, records it and kills the workers so that the blocking read sees EOF
        while not hb['stop']:
            time.sleep(0.2)
            gap = time.monotonic() - hb['t']
            if gap > 3.0:
                if hb['blocked'] is None:
                    import traceback
                    import sys as _sys
                    fr = _sys._current_frames().get(main_ident)
                    where = ''.join(traceback.format_stack(fr)[-4:]) if fr else ''
                    hb['blocked'] = {'gap': gap, 'where': where[-600:]}
                for p in live.tagged_pids(os.environ['VERIF_LIVE']):
                    if p != os.getpid():
                        try:
                            os.kill(p, 9)
                        except OSError:
                            pass
    main_ident = threading.get_ident()
    th = threading.Thread(target=watchdog, daemon=True)

    @gen.coroutine
    def go():
        beat()
        th.start()
        yield arb.start()
        if late_w is not None:
            if fd0_free:
                try:
                    os.close(0)
                    res.obs['scenarios_with_descriptor_0_free'] += 1
                except OSError:
                    pass
            else:
                try:
                    info['fillers'] = [os.open('/dev/null', os.O_RDONLY) for _ in range(1100)]
                    res.obs['scenarios_with_descriptors_above_1024'] += 1
                except OSError as e:
                    res.inconclusive.append('could not open 1100 descriptors: %s' % e)
            for attempt in range(100):
                try:
                    yield late_w.start()
                    break
                except Exception as e:
                    if type(e).__name__ != 'ConflictError':
                        raise
                    yield gen.sleep(0.02)
            info['late_fds'] = sorted(fd for fd in arb.get_watcher('wr_late').stream_redirector.pipes) \
                if arb.get_watcher('wr_late').stream_redirector else None
        writers = {}
        for w in watchers:
            for p in w.processes.values():
                writers[w.name] = p.pid
        # sibling generations while the writers write
        switch_at = rnd.randint(1, 3)
        for g in range(spec['gens']):
            if hb['blocked'] is not None:
                break
            if g == switch_at:
                # the stream of a channel of a running writer is reconfigured (what `set w stdout_stream.* ...`
                # does): from now on its output belongs to the new stream, the old one is closed
                wsw = watchers[0]
                for ch in ('stdout', 'stderr'):
                    for attempt in range(100):
                        try:
                            wsw.set_opt('%s_stream.stream' % ch, Collector(ch, sink, late))
                            break
                        except Exception as e:      # refused while the periodic check holds the slot: try again
                            if type(e).__name__ != 'ConflictError':
                                raise
                            yield gen.sleep(0.02)
                info['switched'] = wsw.name
                # ... and of the writer with equal configurations, its stdout only: stderr keeps its own stream
                for attempt in range(100):
                    try:
                        w_eq.set_opt('stdout_stream.stream', EqCollector('eq', sink, late))
                        break
                    except Exception as e:
                        if type(e).__name__ != 'ConflictError':
                            raise
                        yield gen.sleep(0.02)
            act = rnd.choice(['restart', 'reload', 'kill9', 'restart'] if not sib_stubborn else
                             ['reload', 'reload', 'kill9', 'restart'])
            try:
                if act == 'restart':
                    yield sib.restart()
                elif act == 'reload':
                    yield sib.reload()
                else:
                    for p in list(sib.processes):
                        try:
                            os.kill(p, signal.SIGKILL)
                        except OSError:
                            pass
                    yield gen.sleep(0.35)
            except Exception as e:          # a ConflictError with the periodic check is legitimate
                if type(e).__name__ == 'ConflictError':
                    res.obs['sibling_action_refused:ConflictError'] += 1
                else:
                    info.setdefault('sib_errors', []).append('%s %s: %s' % (act, type(e).__name__, str(e)[:80]))
                yield gen.sleep(0.1)
            info['fds'][g] = nfds()
            yield gen.sleep(0.02)
        # wait until every writer has finished its script
        t0 = time.time()
        while time.time() - t0 < 60 and hb['blocked'] is None:
            donef = [f for f in os.listdir(logdir) if '.written.' in f]
            if len(donef) >= 2 * len(watchers) + 2 * len(dys):
                break
            yield gen.sleep(0.1)
        if hb['blocked'] is not None:
            for x in watchers + [sib] + dys:
                x.respawn = False
            yield arb.stop()
            return
        yield gen.sleep(0.5)
        info['writers'] = writers
        # idle window: a closed pipe must not make its handler spin
        before = dict(calls)
        yield gen.sleep(1.0)
        info['idle_calls'] = {k: calls[k] - before.get(k, 0) for k in calls}
        info['alive'] = {n: live.alive(p) for n, p in writers.items()}
        info['same_pid'] = {w.name: sorted(w.processes) for w in watchers}
        info['dy_pids'] = sorted(p for x in dys for p in x.processes)
        yield arb.stop()
    try:
        try:
            loop.run_sync(go, timeout=240)
        except Exception as e:
            if hb['blocked'] is None:
                raise
    finally:
        hb['stop'] = True
        redirector.Redirector.Handler.__call__ = orig_call
        try:
            loop.close(all_fds=True)
        except Exception:
            pass
        asyncio.set_event_loop(None)
        ctx.destroy(linger=0)
    res.hist['max_loop_gap_ms'][int(hb['max_gap'] * 1000) // 50 * 50] += 1
    if hb['blocked'] is not None:
        res.violation('C17/event-loop-blocked-in-output-handling',
                      'the daemon loop did not run for %.1f s while workers were writing (a burst of exactly two read '
                      'buffers followed by silence); stack of the loop thread: %s' % (hb['blocked']['gap'], hb['blocked']['where']))
        return
    writers = info.get('writers', {})
    # ---- compare byte for byte
    for i, sc in enumerate(scripts):
        name = sc.get('name') or ('wr%d' % i if sc['stdout'] is not None else 'wr_eo')
        pid = writers.get(name)
        if pid is None:
            continue
        if info['same_pid'].get(name) != [pid] or not info['alive'].get(name):
            res.obs['writers_restarted_meanwhile(not judged)'] += 1
            continue
        for ch in ('stdout', 'stderr'):
            if sc[ch] is None:
                continue
            want = b''.join(record(pid, ch, seq, size) for seq, (size, _) in enumerate(sc[ch]))
            got = b''.join(sink.get((pid, ch, ch), []))
            res.obs['streams_compared'] += 1
            res.obs['bytes_compared'] += len(want)
            wrong_label = [k for k in sink if k[0] == pid and (k[1] != k[2])]
            if wrong_label:
                res.violation('C17/channel-mislabelled', 'data of worker %d labelled %s reached the %s stream'
                              % (pid, wrong_label[0][1], wrong_label[0][2]))
            if got != want and late.get((pid, ch, ch)):
                res.violation('C17/output-delivered-to-replaced-stream',
                              'worker %d %s: after the stream of the channel was replaced (set %s_stream.*), %d bytes '
                              'were still handed to the old, closed stream; the configured stream got %d of %d bytes'
                              % (pid, ch, ch, late[(pid, ch, ch)], len(got), len(want)))
            elif got != want:
                kind = 'loss' if len(got) < len(want) else ('duplication-or-extra' if len(got) > len(want) else 'corruption')
                pos = next((j for j in range(min(len(got), len(want))) if got[j] != want[j]), min(len(got), len(want)))
                res.violation('C17/stream-differs:%s' % kind, 'worker %d %s: wrote %d bytes, stream got %d; first '
                              'difference at offset %d: wrote %r, got %r (chunks delivered: %d)'
                              % (pid, ch, len(want), len(got), pos, want[pos:pos + 40], got[pos:pos + 40],
                                 len(sink.get((pid, ch, ch), []))))
            else:
                res.nontrivial(repr((sc[ch][:30], ch)))
        foreign = [k for k in sink if k[0] == pid and k[1] not in ('stdout', 'stderr')]
        if foreign:
            res.violation('C17/unknown-channel-label', str(foreign[:2]))
    # restarting / reloading a sibling must not fail because of descriptor bookkeeping
    for msg in info.get('sib_errors', [])[:1]:
        mech = 'stale-handler-for-reused-descriptor' if 'added twice' in msg else 'other'
        res.violation('C17/sibling-restart-failed[%s]' % mech,
                      'restart/reload of the sibling watcher raised %s (%d such failures in %d generations): a descriptor '
                      'of a dead worker is still registered with the loop when its number is reused'
                      % (msg, len(info['sib_errors']), spec['gens']))
    for msg in info.get('add_handler_errors', [])[:1]:
        res.violation('C17/new-worker-pipe-not-watched[stale-handler-for-reused-descriptor]',
                      'registering the pipe of a freshly spawned worker failed with %r (%d times): a handler of a worker '
                      'that is gone is still registered for that descriptor number, the new worker\'s output is not '
                      'captured (sibling workers ignore the stop signal: %s)' % (msg, len(info['add_handler_errors']), sib_stubborn))
    res.obs['scenarios_with_stubborn_sibling'] += int(sib_stubborn)
    # the respawned successor of the worker that died by itself
    for pid in info.get('dy_pids', []):
        if not os.path.exists(os.path.join(logdir, '%d.written.stdout' % pid)):
            res.obs['dy_successor_not_finished(not judged)'] += 1
            continue
        for ch in ('stdout', 'stderr'):
            want = b''.join(record(pid, ch, seq, size) for seq, (size, _) in enumerate(dy_script[ch]))
            got = b''.join(sink.get((pid, ch, ch), []))
            res.obs['streams_compared'] += 1
            res.obs['respawned_worker_streams_compared'] += 1
            if got != want:
                res.violation('C17/respawned-worker-output-%s' % ('lost' if len(got) < len(want) else 'differs'),
                              'the worker respawned after its predecessor exited by itself (a helper child still held '
                              'the old pipes) wrote %d bytes on %s, the stream got %d' % (len(want), ch, len(got)))
            else:
                res.nontrivial(repr(('dy', dy_script[ch][:20], ch)))
    # every chunk is tagged with the pid of the worker that wrote it
    for (pid, nm, chan), chunks in sink.items():
        blob = b''.join(chunks)
        import re
        heads = set(re.findall(rb'\[(\d+)\|(stdout|stderr)\|', blob[:200000]))
        for hp, hc in heads:
            if int(hp) != pid or hc.decode() != nm:
                res.violation('C17/record-tagged-with-another-pid-or-channel',
                              'stream chunk labelled pid %d/%s contains a record written by %s/%s' % (pid, nm, hp.decode(), hc.decode()))
                break
    # closed pipe: no spinning
    cpid = writers.get('wr%d' % closer)
    if cpid is not None and info.get('idle_calls') is not None:
        n = info['idle_calls'].get((cpid, 'stdout'), 0)
        res.obs['closed_pipe_idle_windows'] += 1
        res.hist['handler_calls_on_closed_pipe_in_1s'][n] += 1
        if n > 3:
            res.violation('C17/handler-spins-on-closed-pipe', 'worker %d closed its stdout and keeps running; its '
                          'redirector handler was invoked %d times during a 1 s idle window' % (cpid, n))
    # descriptor leak per generation
    fds = info['fds']
    if len(fds) > 12:
        a, b = fds[10], fds[max(fds)]
        res.hist['fd_growth_after_gen10'][b - a] += 1
        res.obs['fd_leak_checks'] += 1
        if b - a > 6:
            res.violation('C17/descriptor-leak-per-generation', '/proc/self/fd went from %d (generation 10) to %d '
                          '(generation %d)' % (a, b, max(fds)))
    res.sample = {'writers': nwriters, 'records_per_channel': [len(s_['stderr']) for s_ in scripts],
                  'sibling_generations': spec['gens'], 'bytes_compared': res.obs.get('bytes_compared', 0)}


def starved(merged, tier):
    o = merged['obs']
    out = []
    if o.get('streams_compared', 0) < 4:
        out.append('only %d streams compared' % o.get('streams_compared', 0))
    if o.get('closed_pipe_idle_windows', 0) < 1:
        out.append('closed-pipe clause never evaluated')
    if o.get('fd_leak_checks', 0) < 1:
        out.append('descriptor-leak clause never evaluated')
    return out
