"""C05 — the daemon never blocks: every request completes in bounded time.

Engine SIM (this is the property virtual time exists for).  Monitors: the loop monitor charges
every time.sleep() to the loop iteration it happens in (blocked > 0.5 s, or a wait that can
never end = Stalled, are violations keyed by the circus call site); read-only probes injected
at every other selector poll must be answered inside the handle_message call that delivered
them; waiting requests must be answered within B(op).
"""
import math
import os

from tornado import gen

from vlib import simgen, simhist
from vlib.common import CaseResult, rng_for
from vlib.sim import EPOCH

ID = 'C05'
LEVEL = 'exploration'
RULE = ('histories of 2-7 overlapping requests (exclusive: stop/start/restart/reload x3/incr/decr/set/rm/add; '
        'non-exclusive: kill with overrides, signal) sent with or without waiting at random small offsets, on 1-2 '
        'watchers with obedient/slow/stubborn/dying workers, respawn on/off, exec failures, external kills and '
        'periodic checks; in half of the runs a read-only probe (status/list/numprocesses/options/stats/'
        'numwatchers/get) is delivered at every other selector poll. non-trivial = >=2 requests overlapped in '
        'time or a probe was answered while an operation was in flight; distinct = canonical kernel trace + '
        'reply pattern')
ASSUMPTIONS = ['hooks are user code and never sleep in this workload',
               'dstats is excluded (it samples CPU for 10 ms by design)',
               'B(op) = sum over sequential phases of (graceful timeout rounded up to the 0.1 s poll + one step) + '
               'spawns x warmup_delay + 1 s + 0.2 s per process involved']
BUDGET = {'quick': 240, 'thorough': 1500}
CASE_TIMEOUT = 180          # a LIVE history (real daemon, real grace periods) takes 20-60 s of wall clock

EXCL = ['stop', 'start', 'restart', 'reload', 'reloadseq', 'reloadterm', 'incr', 'decr', 'setnp']
NONEX = ['kill', 'kill', 'signal']
OTHER = ['extkill', 'selfexit', 'check', 'advance', 'advance', 'clockat']
READONLY = ['status', 'list', 'numprocesses', 'options', 'stats', 'numwatchers', 'get', 'statusall', 'listall']
BLOCK_LIMIT = 0.5


def gen_spec(rnd):
    ws = [simgen.gen_watcher(rnd, 'a', np_choices=(1, 2, 3), stubborn_bias=.35)]
    if rnd.random() < .4:
        ws.append(simgen.gen_watcher(rnd, 'b', np_choices=(1, 2)))
    for w in ws:
        if rnd.random() < .2:
            w['respawn'] = False
        if rnd.random() < .1:
            w['max_retry'] = 2
        if rnd.random() < .25:
            # captured output; a helper process of the worker inherits the pipe and may outlive the worker
            w['capture'] = rnd.choice([True, 'both'])
            if rnd.random() < .6 and not w.get('kids'):
                w['kids'] = [{'beh': rnd.choice([{}, {'*': ['ignore']}])}]
    names = [w['name'] for w in ws]
    steps = []
    for _ in range(rnd.randint(2, 7)):
        k = rnd.choice(EXCL + EXCL + NONEX + NONEX + OTHER)
        st = simgen.gen_step(rnd, names, [k])
        steps.append(st)
        if rnd.random() < .6:
            steps.append(['adv', rnd.choice([0, 0, .05, .15, .3, 1.0])])
    fail = []
    if rnd.random() < .15:
        b = rnd.randint(2, 8)
        fail = list(range(b, b + rnd.choice([1, 3, 6])))
    spec = {'kill_latency': rnd.choice([0.0, 0.0005, 0.002]), 'watchers': ws, 'steps': steps, 'spawn_fail': fail,
            'probes': rnd.random() < .5}
    if rnd.random() < .05:
        spec['spawn_fail_from'] = rnd.randint(2, 8)          # from then on no process can be created any more
    if (fail or spec.get('spawn_fail_from')) and rnd.random() < .5:
        # not only "no such file": EAGAIN (process limit), ETXTBSY (the executable is being replaced), ENOMEM
        spec['spawn_fail_errno'] = rnd.choice([11, 26, 12, 13])
    if rnd.random() < .12:
        # workers that exit by themselves right after they were started (a crash loop)
        ws[0]['beh'] = [dict(b_, self_exit=[rnd.choice([0.0, 0.05]), 256]) for b_ in ws[0]['beh']]
    return spec


def plan(tier, seed):
    n = 6000 if tier == 'quick' else 150000
    return ([{'kind': 'random', 'seed': seed, 'idx': i} for i in range(n)] +
            [{'kind': 'parallel-kill', 'seed': seed, 'idx': i} for i in range(40 if tier == 'quick' else 400)] +
            [{'kind': 'long-history', 'seed': seed, 'idx': i} for i in range(40 if tier == 'quick' else 400)] +
            [{'kind': 'bad-release', 'seed': seed, 'idx': i} for i in range(24 if tier == 'quick' else 240)] +
            [{'kind': 'live', 'seed': seed, 'idx': i} for i in range(3 if tier == 'quick' else 30)] +
            [{'kind': 'live-stalled-subscriber', 'seed': seed, 'idx': i} for i in range(1 if tier == 'quick' else 4)] +
            [{'kind': 'live-stats-many-children', 'seed': seed, 'idx': i} for i in range(1 if tier == 'quick' else 3)])


def live_stalled_subscriber(spec, res):
    """a subscriber of the event channel that has stopped reading (a hung plugin, a stopped circus-top) while the
    daemon publishes thousands of events: requests keep being answered at once"""
    import time
    import zmq
    from vlib import live
    d = live.Daemon('', strace=False)
    d.ini = (d.header(check_delay=0.5) + '[watcher:a]\ncmd = %s\nnumprocesses = 2\ngraceful_timeout = 1\n'
             'copy_env = True\n\n' % live.worker_cmd({'log': '@LOG@'})).replace('@DIR@', d.dir).replace('@LOG@', d.logdir)
    with open(d.ini_path, 'w') as f:
        f.write(d.ini)
    ctx = zmq.Context()
    subs = []
    try:
        d.start()
        if not d.wait_ready(20):
            res.inconclusive.append('live: daemon not ready: ' + d.output()[-200:])
            return
        for i in range(1 + spec['idx'] % 2):
            sub = ctx.socket(zmq.SUB)
            sub.setsockopt(zmq.LINGER, 0)
            sub.setsockopt(zmq.SUBSCRIBE, b'')
            sub.connect(d.pubsub)          # ... and is never read
            subs.append(sub)
        time.sleep(0.5)
        c = d.client(timeout=8.0)
        from circus.exc import CallError
        worst = 0.0
        nreq = 900
        try:
            for i in range(nreq):
                cmd, props = ('set', {'name': 'a', 'options': {'send_hup': bool(i % 2), 'graceful_timeout': 1 + i % 2,
                                                               'stop_signal': [15, 2][i % 2], 'stop_children': bool(i % 3),
                                                               'warmup_delay': 0}}) \
                    if i % 10 else ('numwatchers', {})
                t0 = time.time()
                try:
                    r = c.call({'command': cmd, 'properties': props})
                except CallError as e:
                    r = {'status': 'CallError: %s' % e}
                dt = time.time() - t0
                worst = max(worst, dt)
                res.obs['live_requests_with_a_stalled_subscriber'] += 1
                if r.get('status') != 'ok':
                    res.violation('C05/live:request-unanswered[event-subscriber-not-reading]',
                                  'request %d (%s) with %d event subscriber(s) that never read, after about %d published '
                                  'events: %s %s after %.1fs' % (i, cmd, len(subs), i * 5, r.get('status'), str(r.get('reason'))[:80], dt))
                    break
        finally:
            c.stop()
        res.hist['live_worst_latency_with_stalled_subscriber_ms'][int(worst * 1000) // 50 * 50] += 1
        if worst > 4.0 and not res.viol:
            res.inconclusive.append('live: a request took %.1fs with a stalled subscriber (loaded machine?)' % worst)
        res.obs['live_daemons'] += 1
        res.nontrivial(repr(('live-stalled-subscriber', len(subs))))
    finally:
        for sub in subs:
            sub.close()
        ctx.destroy(linger=0)
        d.cleanup()


def live_stats_many_children(spec, res):
    """a worker with many children (a pre-forking server): `stats` walks them all; a second client's read-only request
    sent 50 ms later must not wait for seconds.  Decided on the best of three attempts (a loaded machine makes one
    attempt slow, a daemon that sleeps per child makes all of them slow)"""
    import threading
    import time
    from vlib import live
    nkids = 24 + 4 * (spec['idx'] % 3)
    d = live.Daemon('', strace=False)
    d.ini = (d.header(check_delay=0.5) + '[watcher:pre]\ncmd = %s\nnumprocesses = 1\ngraceful_timeout = 1\n'
             'copy_env = True\n\n' % live.worker_cmd({'log': '@LOG@', 'fork': nkids})
             ).replace('@DIR@', d.dir).replace('@LOG@', d.logdir)
    with open(d.ini_path, 'w') as f:
        f.write(d.ini)
    try:
        d.start()
        if not d.wait_ready(20) or not d.workers_up(1, 20):
            res.inconclusive.append('live: daemon or the forked children not ready: ' + d.output()[-200:])
            return
        lat = []
        for attempt in range(3):
            out = {}

            def first():
                t0 = time.time()
                out['stats'] = (d.call('stats', name='pre', timeout=30.0), time.time() - t0)
            th = threading.Thread(target=first)
            th.start()
            time.sleep(0.05)
            t1 = time.time()
            r2 = d.call('status', name='pre', timeout=30.0)
            lat.append(time.time() - t1)
            th.join(40)
            res.obs['live_stats_requests_on_a_worker_with_many_children'] += 1
            kids_seen = [len((v or {}).get('children', [])) for v in (out.get('stats', ({},))[0].get('info') or {}).values()
                         if isinstance(v, dict)]
            res.hist['live_children_reported_by_stats'][max(kids_seen or [0])] += 1
            if r2.get('status') not in ('active', 'ok'):
                res.inconclusive.append('live: status during stats answered %r' % (r2,))
                return
            time.sleep(0.3)
        res.hist['live_status_latency_during_stats_ms'][int(min(lat) * 1000) // 50 * 50] += 1
        if min(lat) > 1.5:
            res.violation('C05/live:read-only-request-waits-for-stats[worker-with-many-children]',
                          'a status request sent 50 ms after a stats request on a worker with %d children was answered after '
                          '%s s in three attempts out of three' % (nkids, ['%.2f' % x for x in lat]))
        elif max(lat) > 1.5:
            res.inconclusive.append('live: one status during stats took %.1fs (loaded machine?)' % max(lat))
        res.obs['live_daemons'] += 1
        res.nontrivial(repr(('live-stats-many-children', nkids)))
    finally:
        d.cleanup()


def live_case(spec, res):
    """the same property on a real circusd with real workers: wall clock and /proc instead of the simulated kernel"""
    from vlib import livehist
    rnd = rng_for(spec['seed'], 'C05-live', spec['idx'])
    ls = livehist.gen_spec(rnd, nsteps=5, stop_heavy=True)
    ls['on_demand'] = spec['idx'] % 2 == 0
    rec = livehist.run(ls, strace=False, probe=True)
    if rec['problem']:
        res.inconclusive.append('live: ' + rec['problem'][:200])
        return
    livehist.judge_latency(rec, res, ls)
    res.obs['live_daemons'] += 1
    res.nontrivial(repr(('live', [(w['kind'], w['np']) for w in ls['watchers']], ls['steps'])))
    if res.sample is None:
        res.sample = {'live': True, 'watchers': ls['watchers'], 'steps': ls['steps']}


def run_case(spec):
    res = CaseResult()
    if spec.get('kind') == 'live-stalled-subscriber':
        live_stalled_subscriber(spec, res)
        for v in res.viol:
            v['spec'] = spec
        return res
    if spec.get('kind') == 'live-stats-many-children':
        live_stats_many_children(spec, res)
        for v in res.viol:
            v['spec'] = spec
        return res
    if spec.get('kind') == 'live':
        live_case(spec, res)
        for v in res.viol:
            v['spec'] = spec
        return res
    if 'steps' in spec:
        run_history(spec, res)
    elif spec.get('kind') == 'long-history':
        # the same operation many times over, then an ordinary request: its bound does not depend on the past
        rnd = rng_for(spec['seed'], 'C05-long', spec['idx'])
        np_ = rnd.choice([1, 2, 3])
        wu = rnd.choice([0.3, 1.0])
        wconf = {'name': 'a', 'numprocesses': np_, 'graceful_timeout': rnd.choice([0.2, 1.0]), 'warmup_delay': wu,
                 'singleton': False, 'beh': [{}]}
        rep = rnd.choice([['call', 'reload', {'name': 'a', 'waiting': True}],
                          ['call', 'restart', {'name': 'a', 'waiting': True}],
                          ['call', 'reload', {'name': 'a', 'sequential': True, 'waiting': True}],
                          ['call', 'incr', {'name': 'a', 'waiting': True}],
                          ['call', 'kill', {'name': 'a', 'waiting': True}]])
        last = rnd.choice([['req', 'incr', {'name': 'a', 'waiting': True}], ['req', 'decr', {'name': 'a', 'waiting': True}],
                           ['req', 'restart', {'name': 'a', 'waiting': True}], ['req', 'stop', {'name': 'a', 'waiting': True}],
                           ['req', 'reload', {'name': 'a', 'waiting': True}]])
        steps = []
        for _ in range(rnd.randint(4, 9)):
            steps += [list(rep), ['settle', 60]]
        run_history({'kill_latency': 0.0, 'watchers': [wconf], 'steps': steps + [last, ['adv', 0.1]]}, res)
        res.obs['long_history_cases'] += 1
    elif spec.get('kind') == 'bad-release':
        # a healthy first generation; every later generation exits by itself during (or right after) its warm-up -- a
        # broken release, a bad cmd just applied: the operation that replaces the workers ends all the same
        rnd = rng_for(spec['seed'], 'C05-bad-release', spec['idx'])
        np_ = rnd.choice([1, 2, 3])
        wu = rnd.choice([0.3, 0.3, 1.0, 0])
        crash = {'self_exit': [rnd.choice([0.0, 0.05, 0.2]), rnd.choice([256, 0, 9])]}
        wconf = {'name': 'a', 'numprocesses': np_, 'graceful_timeout': rnd.choice([0.2, 0.5]), 'warmup_delay': wu,
                 'singleton': False, 'beh': [{'15': ['die', 0.05]}] * np_ + [dict({'15': ['die', 0.05]}, **crash)] * 40}
        op = [['req', 'reload', {'name': 'a', 'sequential': True, 'waiting': True}],
              ['req', 'reload', {'name': 'a', 'waiting': True}],
              ['req', 'restart', {'name': 'a', 'waiting': True}],
              ['req', 'reload', {'name': 'a', 'graceful': False, 'waiting': True}],
              ['req', 'set', {'name': 'a', 'options': {'args': '--new'}, 'waiting': True}],
              ['req', 'incr', {'name': 'a', 'nb': 2, 'waiting': True}]][spec['idx'] % 6]
        run_history({'kill_latency': 0.0, 'watchers': [wconf, {'name': 'b', 'numprocesses': 1, 'graceful_timeout': 0.2}],
                     'steps': [['adv', 0.2], op, ['adv', 0.3], ['req', 'incr', {'name': 'b', 'waiting': True}], ['adv', 0.1]],
                     'probes': True}, res)
        res.obs['bad_release_cases'] += 1
    elif spec.get('kind') == 'parallel-kill':
        # several workers that all sit out the whole grace period: the applicable timeout is one graceful_timeout
        # (+ warmups), not one per worker
        rnd = rng_for(spec['seed'], 'C05-par', spec['idx'])
        np_ = rnd.choice([2, 3, 4])
        gt = rnd.choice([1.0, 2.0, 3.0])
        wconf = {'name': 'a', 'numprocesses': np_, 'graceful_timeout': gt, 'warmup_delay': 0, 'singleton': False,
                 'beh': [{'15': ['ignore']}]}
        op = rnd.choice([['req', 'stop', {'name': 'a', 'waiting': True}], ['req', 'restart', {'name': 'a', 'waiting': True}],
                         ['req', 'reload', {'name': 'a', 'waiting': True}], ['req', 'rm', {'name': 'a', 'waiting': True}],
                         ['req', 'set', {'name': 'a', 'options': {'numprocesses': 0}, 'waiting': True}],
                         ['req', 'decr', {'name': 'a', 'nb': np_, 'waiting': True}],
                         # a per-request grace period (also 0) replaces the watcher's
                         ['req', 'kill', {'name': 'a', 'graceful_timeout': 0, 'waiting': True}],
                         ['req', 'kill', {'name': 'a', 'graceful_timeout': 0.2, 'waiting': True}]])
        run_history({'kill_latency': 0.0, 'watchers': [wconf], 'steps': [['adv', 0.2], op, ['adv', 0.1]]}, res)
        res.obs['parallel_kill_cases'] += 1
    else:
        run_history(gen_spec(rng_for(spec['seed'], 'C05', spec['idx'])), res)
    return res


_PATCHED = [False]


def worker_init():
    """observation-only wrapper around Watcher.kill_process: per pid, the invocations, whether each is
    finished, and what it returned (used to name the mechanism of a blocking reap)"""
    if _PATCHED[0]:
        return
    import circus.watcher
    from vlib import sim
    orig = circus.watcher.Watcher.kill_process

    def kill_process(self, process, *a, **kw):
        w = sim.cur()
        fut = orig(self, process, *a, **kw)
        if w is not None:
            gtk = kw.get('graceful_timeout')
            if gtk is None and len(a) > 1:
                gtk = a[1]
            if gtk is None:
                gtk = self.graceful_timeout
            rec = {'t': w.clock.now, 'done': False, 'ret': None, 'gt': gtk, 'mid': getattr(w, 'dispatching', None)}
            w.kills.setdefault(process.pid, []).append(rec)

            def fin(f, rec=rec):
                rec['done'] = True
                rec['t_done'] = w.clock.now
                try:
                    rec['ret'] = f.result()
                except Exception as e:      # noqa
                    rec['ret'] = 'EXC'
            if fut.done():
                fin(fut)
            else:
                fut.add_done_callback(fin)
        return fut
    circus.watcher.Watcher.kill_process = kill_process
    _PATCHED[0] = True


def mechanism(w, pid, t_block):
    """why is reap_process waiting for a child that is not dead?"""
    if pid is None:
        return 'pid-unknown'
    recs = w.kills.get(pid, [])
    if not recs:
        return 'no-kill-issued'

    def alive_at(r, t):
        return r['t'] <= t + 1e-9 and (not r['done'] or r.get('t_done', 0) > t + 1e-9)
    unfinished = [r for r in recs if alive_at(r, t_block)]
    for i, ri in enumerate(recs):
        if not alive_at(ri, t_block):
            continue
        for rj in recs[i + 1:]:
            # a later invocation that returned False at once while ri was still running: the
            # process.stopping short-cut of kill_process
            if rj['done'] and rj['ret'] is False and rj.get('t_done', 1e18) - rj['t'] < 1e-4 and alive_at(ri, rj['t']):
                return 'kill-already-in-flight'
    if unfinished:
        return 'own-kill-unfinished'
    return 'after-kill'


def run_history(h, res):
    worker_init()
    w = simhist.new_world(h)
    w.kills = {}
    nv = len(res.viol)
    try:
        w.run(lambda: _history(w, h, res))
        for v in res.viol[nv:]:
            v['spec'] = h
        if w.breach():
            res.inconclusive.append('containment breach')
    finally:
        w.close()


def kphase(gt, latency=0.0):
    return math.ceil(max(gt, 0) / 0.1 - 1e-9) * 0.1 + 0.1 + latency + 0.01


def bound(w, cmd, props):
    """B(op) from the configuration at the time of the request"""
    arb = w.arb
    name = props.get('name')
    ws = [arb.get_watcher(name)] if name and name.lower() in arb._watchers_names else list(arb.watchers)
    nproc = sum(max(len(x.processes), x.numprocesses) for x in ws) + 2
    lat = w.kernel.kill_latency
    K = max([kphase(x.graceful_timeout, lat) for x in ws] + [0])
    S = sum(max(x.numprocesses, len(x.processes)) * x.warmup_delay for x in ws)
    glob = arb.warmup_delay * len(ws)
    base = 1.0 + 0.2 * nproc
    if cmd in ('stop', 'rm', 'quit', 'decr'):
        return K + base
    if cmd == 'start':
        return S + glob + K + base          # a start may abort into a stop
    if cmd == 'restart':
        return K + S + glob + K + base
    if cmd == 'reload':
        if props.get('graceful') is False:
            return K + S + K + base
        if props.get('sequential'):
            return sum(max(len(x.processes), x.numprocesses) * (kphase(x.graceful_timeout, lat) + x.warmup_delay)
                       for x in ws) + S + K + base
        return S + K + K + base        # surplus removal, then whatever is left of the old generation
    if cmd == 'incr':
        nb = props.get('nb', 1)
        return (nb if isinstance(nb, (int, float)) else 1) * max([x.warmup_delay for x in ws] + [0]) + S + K + base
    if cmd == 'set':
        return S + K + K + 4 * max([x.warmup_delay for x in ws] + [0]) + base
    if cmd == 'kill':
        gt = props.get('graceful_timeout')
        return (kphase(gt, lat) if gt is not None else K) + base
    return S + K + base


def site_key(site):
    out = []
    for f in site.split('<-'):
        out.append(f)
        if f not in ('reap_process', 'reap_processes'):
            break
    return '<-'.join(out)


@gen.coroutine
def _history(w, h, res):
    k = w.kernel
    yield simhist.boot(w, h)
    r = simhist.Runner(w, h)
    names = [c['name'] for c in h['watchers']]
    probes = []
    if h.get('probes'):
        last = [0]
        rnd = rng_for(0, 'C05-probe', len(h['steps']))

        def hook(n):
            if n - last[0] < 2 or w.stalled is not None or not w.arb.ctrl.started:
                return False
            last[0] = n

            def deliver():
                if w.stalled is not None or not w.arb.ctrl.started:
                    return
                cmd = rnd.choice(READONLY)
                props = {}
                if cmd == 'statusall':
                    cmd = 'status'
                elif cmd == 'listall':
                    cmd = 'list'
                elif cmd != 'numwatchers':
                    props = {'name': rnd.choice(names)}
                if cmd == 'get':
                    props['keys'] = ['numprocesses', 'graceful_timeout']
                inflight = w.arb._exclusive_running_command
                mid = w.req(cmd, **props)
                probes.append((mid, cmd, inflight))
            w.aloop.call_soon(deliver)
            return True
        w.sel.any_hook = hook
    waiting = []         # (mid, cmd, props, t_sent, B)

    def before(i, st):
        if st[0] == 'req' and st[2].get('waiting'):
            waiting.append([None, st[1], st[2], w.clock.now, bound(w, st[1], st[2])])

    def after(i, st):
        if st[0] == 'req' and st[2].get('waiting') and waiting and waiting[-1][0] is None:
            waiting[-1][0] = r.mids[-1][1]
    yield r.run_steps(before=before, after=after)
    if w.stalled is None:
        yield w.settle(400.0)
        # settle() looks at the exclusive slot; a waiting non-exclusive request (kill) may still be in its grace period
        waited = 0.0
        while w.stalled is None and waited < 400 and any(m is not None and not w.reply_meta(m) for m, _, _, _, _ in waiting):
            yield gen.sleep(0.05)
            waited += 0.05
    w.sel.any_hook = None
    # ---- (i) loop monitor
    if w.stalled is not None:
        res.obs['stalls'] += 1
        site = w.stalled['site']
        mech = mechanism(w, w.stalled.get('pid'), w.stalled.get('t_block', 0))
        if site_key(site).endswith('<-_start'):
            # _start's branch for a watcher that is not stopped reaps whatever is in the table
            st = [x.status() for x in w.arb.watchers if w.stalled.get('pid') in x.processes or True][:1]
            owner = [x for x in w.arb.watchers if simhist.tag_of(x.name) == getattr(k.procs.get(w.stalled.get('pid')), 'tag', None)]
            mech = 'watcher-%s,live-worker' % (owner[0].status() if owner else '?')
        res.violation('C05/blocking-wait@%s[%s]' % (site_key(site), mech),
                      'event loop dead-locked at t=%.2f in %s: %s' % (w.stalled['t'], site, w.stalled['why']),
                      steps=h['steps'])
    else:
        for site, b in w.clock.block_sites.items():
            if b > BLOCK_LIMIT:
                pid, tb = w.clock.block_pids.get(site, (None, 0))
                res.violation('C05/blocking-wait@%s[%s]' % (site_key(site), mechanism(w, pid, tb)),
                              'one loop iteration spent %.2fs of virtual time in time.sleep at %s' % (b, site))
    res.hist['max_blocked_ms_per_iteration'][int(min(w.clock.max_blocked, 9.99) * 1000) // 5 * 5] += 1
    # ---- (ii) read-only probes answered at once
    overlapped = 0
    for mid, cmd, inflight in probes:
        rec = w.sent[mid]
        res.obs['probes'] += 1
        if inflight:
            res.obs['probes_during_operation'] += 1
            overlapped += 1
        if rec.get('escaped'):
            res.violation('C05/probe-raised:' + cmd, 'read-only %s raised %s' % (cmd, rec['escaped']))
        elif rec['frames_sync'] != 2:
            if w.stalled is None:
                res.violation('C05/probe-not-answered-at-once:' + cmd,
                              'read-only %s delivered while %s was in flight wrote %d frames inside handle_message'
                              % (cmd, inflight, rec['frames_sync']))
        else:
            rep = w.reply(mid)
            if not isinstance(rep, dict) or rep.get('status') == 'error':
                res.violation('C05/probe-error:' + cmd, 'read-only %s answered %s while %s in flight'
                              % (cmd, str(rep)[:200], inflight))
    # ---- (iii)/(iv) waiting requests answered within B(op)
    if w.stalled is None:
        for mid, cmd, props, t0, B in waiting:
            if mid is None:
                continue
            meta = w.reply_meta(mid)
            if not meta:
                if w.sent[mid].get('escaped'):
                    res.obs['waiting_request_escaped(C06 owns)'] += 1
                    continue
                if any('TransformableFuture._internal_callback' in e[4] for e in w.loop_exceptions):
                    # the operation did finish (by raising); the missing reply is C06's mechanism
                    res.obs['unanswered_because_operation_raised(C06 owns)'] += 1
                    continue
                res.violation('C05/waiting-request-never-answered:' + cmd,
                              '%s %s sent with waiting was never answered (virtual loop idle)' % (cmd, props),
                              steps=h['steps'])
                continue
            t, it, body = meta[0]
            res.obs['waiting_replies'] += 1
            if body.get('status') == 'ok':
                lat = t - t0
                # kills with their own timeout that overlap this operation (in flight before it, or arriving
                # during it) have to finish first: their graceful_timeout is one of "the applicable" ones
                # (what a kill request starts itself, in the same instant it is dispatched, is that request, not
                # something overlapping it: its grace period is the one the request names)
                over = [r['gt'] for recs in w.kills.values() for r in recs
                        if r['t'] <= t and r.get('t_done', 1e18) >= t0 and r['gt'] is not None
                        and not (cmd == 'kill' and r.get('mid') == mid)]
                if over:
                    B = B + kphase(max(over), w.kernel.kill_latency)
                res.hist['waiting_latency_over_bound_pct'][int(100 * lat / B) // 10 * 10] += 1
                if lat > B:
                    res.violation('C05/late-reply:' + cmd, '%s %s answered after %.2fs, bound B(op)=%.2fs'
                                  % (cmd, props, lat, B), steps=h['steps'])
    nreq = sum(1 for s in h['steps'] if s[0] == 'req')
    if nreq >= 2 or overlapped:
        sig = simhist.kernel_sig(w, h['steps']) + repr([(b.get('status') if isinstance(b, dict) else None)
                                                        for _, _, _, b in w.replies()][:40])
        res.nontrivial(sig)
        if res.sample is None:
            res.sample = {'watchers': h['watchers'], 'steps': h['steps'], 'probes': len(probes),
                          'stalled': w.stalled}
    res.obs['requests'] += nreq
    res.obs['selector_polls'] += w.sel.polls


def starved(merged, tier):
    o = merged['obs']
    out = []
    if o.get('probes_during_operation', 0) < 500:
        out.append('only %d probes landed inside an operation' % o.get('probes_during_operation', 0))
    if o.get('waiting_replies', 0) < 500:
        out.append('only %d waiting replies timed' % o.get('waiting_replies', 0))
    return out


def precheck():
    from vlib.calibrate import calibrate
    return calibrate()


def shard_env(i, n):
    """one shard in four runs the daemon code with DEBUG set in its environment (circus then wraps its methods in
    tracing decorators at import time: a different code path through every call)"""
    return {'DEBUG': '1'} if i % 4 == 3 else None
