"""C09 — published events let a subscriber reconstruct the live process set.

Engine SIM, fault enumeration over death placement.  An online checker consumes the event
ledger (every message on the PUB socket) per watcher and is compared with the simulated
kernel at quiescent points.
"""
from tornado import gen

from vlib import simgen, simhist
from vlib.common import CaseResult, rng_for
from vlib.sim import EPOCH
from vlib.props.c04 import quiesce

ID = 'C09'
LEVEL = 'fault_enumeration'
RULE = ('random histories over 1-2 watchers (incr/decr/set/restart/reload x3/stop/start/kill/external signal/'
        'self exit with every status 0..255 and terminating signals/check/advance) plus, per base history, a '
        'death with a chosen status injected at every kernel-call boundary of the last operation (periodic '
        'check, incr, decr, set, reload, restart). non-trivial = the reconstruction oracle ran at a quiescent '
        'point after at least one spawn/reap event; distinct = canonical kernel trace')
ASSUMPTIONS = ['simulated kernel calibrated; the PUB socket is a recorder (no transport loss in SIM)',
               'exit_code is only demanded for workers that exit by themselves or are killed from outside '
               'while their watcher is active (the statement says so)',
               'kill events naming child pids are ignored by the reconstruction']
BUDGET = {'quick': 240, 'thorough': 1500}
CASE_TIMEOUT = 180          # a LIVE history (real daemon, real grace periods) takes 20-60 s of wall clock
CAP = 60
KINDS = ['incr', 'decr', 'setnp', 'restart', 'reload', 'reloadseq', 'reloadterm', 'stop', 'start', 'kill',
         'extkill', 'selfexit', 'selfexit', 'sigexit', 'sigexit', 'check', 'check', 'advance', 'dieat', 'qpoint',
         'signal_nf', 'rm']
TERM_SIGS = [1, 2, 3, 6, 9, 10, 11, 12, 13, 14, 15,
             # real-time signals (no name in Python's signal module), and deaths with a core dump (bit 0x80)
             34, 35, 40, 63, 64, 3 | 0x80, 6 | 0x80, 11 | 0x80]


def gen_spec(rnd):
    ws = [simgen.gen_watcher(rnd, 'a')]
    if rnd.random() < .35:
        ws.append(simgen.gen_watcher(rnd, 'b', np_choices=(1, 2)))
    for w_ in ws:
        if rnd.random() < .15:
            w_['shell'] = True               # the command goes through /bin/sh -c
        if rnd.random() < .1:
            w_['respawn'] = False            # when its last worker is gone the watcher stops by itself
        if rnd.random() < .15:
            # a graceful reload is a SIGHUP to the running workers, which take it as "re-read your configuration" and
            # go on: nothing was killed, nothing may be announced as killed
            w_['send_hup'] = True
            w_['beh'] = [dict(b, **{'1': ['ignore']}) for b in w_['beh']]
    names = [w['name'] for w in ws]
    if rnd.random() < .2:
        # a signal hook that vetoes (false) or fails: the stop signal is withheld, the worker lives through the
        # grace period unless it exits by itself; only signal hooks, the start/stop hooks belong to C14
        ws[0]['hooks'] = {rnd.choice(['before_signal', 'after_signal', 'before_reap', 'after_reap']):
                          [rnd.choice(['false', 'raise', 'true']), rnd.random() < .3]}
    steps = []
    for _ in range(rnd.randint(1, 9)):
        k = rnd.choice(KINDS)
        if k == 'rm':
            steps.append(['req', 'rm', {'name': rnd.choice(names), 'waiting': rnd.random() < .5}])
            continue
        if k == 'signal_nf':
            # a relayed signal the worker survives (WINCH, URG and CHLD are ignored by default)
            p = {'name': rnd.choice(names), 'signum': rnd.choice([28, 23, 'winch', 17, 'SIGURG'])}
            if rnd.random() < .5:
                p['recursive'] = True
            steps.append(['req', 'signal', p])
            continue
        steps.append(['qpoint'] if k == 'qpoint' else simgen.gen_step(rnd, names, [k]))
        if rnd.random() < .4:
            steps.append(['adv', rnd.choice([0, .05, .3])])
    return {'kill_latency': rnd.choice([0.0, 0.0, 0.0005, 0.002]), 'watchers': ws, 'steps': steps}


def plan(tier, seed):
    n = 5000 if tier == 'quick' else 100000
    nb = 140 if tier == 'quick' else 3000
    return ([{'kind': 'random', 'seed': seed, 'idx': i} for i in range(n)] +
            [{'kind': 'sweep', 'seed': seed, 'idx': i} for i in range(nb)] +
            [{'kind': 'death-during', 'seed': seed, 'idx': i} for i in range(48 if tier == 'quick' else 480)] +
            [{'kind': 'live', 'seed': seed, 'idx': i} for i in range(3 if tier == 'quick' else 30)])


def live_case(spec, res):
    """the same oracle with /proc as the process table: a real circusd, real workers"""
    from vlib import livehist
    rnd = rng_for(spec['seed'], 'C09-live', spec['idx'])
    ls = livehist.gen_spec(rnd, nsteps=5)
    rec = livehist.run(ls)
    if rec['problem']:
        res.inconclusive.append('live: ' + rec['problem'][:200])
        return
    livehist.judge_events(rec, res)
    res.obs['live_daemons'] += 1
    res.nontrivial(repr(('live', [(w['kind'], w['np']) for w in ls['watchers']], ls['steps'])))
    res.sample = {'live': True, 'watchers': ls['watchers'], 'steps': ls['steps'], 'quiescent_points': len(rec['points']),
                  'events': len(rec['events'])}


def run_case(spec):
    res = CaseResult()
    if spec.get('kind') == 'live':
        live_case(spec, res)
        for v in res.viol:
            v['spec'] = spec
        return res
    if 'steps' in spec:
        run_history(spec, res)
        return res
    rnd = rng_for(spec['seed'], 'C09', spec['kind'], spec['idx'])
    h = gen_spec(rnd)
    if spec['kind'] == 'random':
        run_history(h, res)
        return res
    if spec['kind'] == 'death-during':
        # a worker dies by itself / is killed from outside a few hundredths of a second INTO an operation that replaces
        # or removes workers of its (active) watcher: it exited by itself, the subscriber is owed its reap event
        np_ = [2, 3][spec['idx'] % 2]
        op = [['req', 'reload', {'name': 'a', 'waiting': False}], ['req', 'decr', {'name': 'a', 'nb': 1, 'waiting': False}],
              ['req', 'set', {'name': 'a', 'options': {'numprocesses': 1}, 'waiting': False}],
              ['req', 'reload', {'name': 'a', 'waiting': True}]][(spec['idx'] // 2) % 4]
        delay = [0.0, 0.02, 0.05, 0.1, 0.15, 0.25][(spec['idx'] // 8) % 6]
        healthy = {'15': ['exit', 0.05, 3]}
        if spec['idx'] % 3 == 0:
            # the first replacement of a graceful reload exits at once: the surplus is one smaller than the old
            # generation, whose youngest member is taken down in a second pass -- and dies from outside before that
            behs = [healthy] * np_ + [dict(healthy, self_exit=[0.0, 256])] + [healthy] * 12
            op = ['req', 'reload', {'name': 'a', 'waiting': spec['idx'] % 2 == 0}]
            death = ['extkill', 'a', np_ - 1, 9]
            delay = [0.02, 0.04, 0.08][(spec['idx'] // 6) % 3]
        else:
            behs = [healthy]
            death = [['extkill', 'a', spec['idx'] % np_, 9],
                     ['die', 'a', spec['idx'] % np_, simhist.wstatus('exit', 7)]][(spec['idx'] // 3) % 2]
        hh = {'kill_latency': 0.0,
              'watchers': [{'name': 'a', 'numprocesses': np_, 'graceful_timeout': rnd.choice([0.1, 0.3]), 'warmup_delay': 0,
                            'singleton': False, 'beh': behs}],
              'steps': [['adv', 0.3], op, ['adv', delay], death, ['adv', 0.5], ['qpoint']]}
        run_history(hh, res)
        res.obs['death_during_operation_cases'] += 1
        return res
    op = rnd.choice([['check'], ['check'], ['req', 'incr', {'name': 'a', 'nb': 1}],
                     ['req', 'decr', {'name': 'a', 'nb': 1}], ['req', 'reload', {'name': 'a'}],
                     ['req', 'reload', {'name': 'a', 'sequential': True}], ['req', 'restart', {'name': 'a'}],
                     ['req', 'set', {'name': 'a', 'options': {'numprocesses': rnd.choice([0, 1, 3])}}]])
    if rnd.random() < .5:
        status = simhist.wstatus('exit', rnd.randint(0, 255))
    else:
        status = rnd.choice(TERM_SIGS)
    h['steps'] = [s for s in h['steps'] if s[0] not in ('inject_death', 'qpoint')][:4]
    base = dict(h)
    base['steps'] = h['steps'] + [['mark'], op]
    n = run_history(base, res, dry=True)
    res.obs['sweep_bases'] += 1
    res.hist['boundaries_of_last_op'][min(n, CAP)] += 1
    for b in range(1, min(n, CAP) + 1):
        hh = dict(h)
        hh['steps'] = h['steps'] + [['inject_death', b, 'a', b, status, 'ext' if status == 9 else 'self'], op]
        run_history(hh, res)
        res.obs['boundaries_injected'] += 1
    return res


_PATCHED = [False]


def worker_init():
    """observation-only wrapper: which dead pids were sitting in a process table when
    Watcher.manage_processes was entered (used to name the mechanism of a missing reap event)"""
    if _PATCHED[0]:
        return
    import circus.watcher
    from vlib import sim
    orig = circus.watcher.Watcher.manage_processes

    def manage_processes(self, *a, **kw):
        w = sim.cur()
        if w is None or self.is_stopped():
            return orig(self, *a, **kw)
        before = set(self.processes)
        fut = orig(self, *a, **kw)
        # the synchronous part has run: entries that vanished from the table without going
        # through reap_process were dropped by manage_processes itself
        k = w.kernel
        k._settle()
        for pid in before - set(self.processes):
            p = k.procs.get(pid)
            if p is not None and p.state != 'running':
                w.mp_drops.add(pid)
        return fut
    manage_processes.__wrapped__ = orig
    circus.watcher.Watcher.manage_processes = manage_processes
    _PATCHED[0] = True


def run_history(h, res, dry=False):
    worker_init()
    w = simhist.new_world(h)
    w.mp_drops = set()
    out = {'n': 0}
    nv = len(res.viol)
    try:
        w.run(lambda: _history(w, h, res, dry, out))
        for v in res.viol[nv:]:
            v['spec'] = h
        if w.breach():
            res.inconclusive.append('containment breach')
    finally:
        w.close()
    return out['n']


class Reconstruction:
    """what a subscriber can know: consumes events in order"""

    def __init__(self, res):
        self.res = res
        self.up = {}          # watcher -> set of pids believed alive
        self.spawned = {}     # pid -> count of spawn events
        self.reaped = {}      # pid -> [exit_code]
        self.killed = {}      # pid -> time of its first kill event
        self.pos = 0
        self.last_ss = {}     # watcher -> last start/stop

    def feed(self, events, steps):
        res = self.res
        for t, topic, msg in events[self.pos:]:
            parts = topic.split('.')
            if len(parts) < 3 or parts[0] != 'watcher' or not isinstance(msg, dict):
                continue
            wn, kind = parts[1], parts[2]
            up = self.up.setdefault(wn, set())
            pid = msg.get('process_pid')
            if kind == 'spawn':
                res.obs['ev_spawn'] += 1
                if pid in up:
                    res.violation('C09/duplicate-spawn-event', 'second spawn event for live pid %s of %s' % (pid, wn))
                if pid in self.reaped:
                    res.violation('C09/spawn-after-reap', 'spawn event for pid %s after its reap event' % pid)
                self.spawned[pid] = self.spawned.get(pid, 0) + 1
                up.add(pid)
            elif kind == 'reap':
                res.obs['ev_reap'] += 1
                if pid not in self.spawned:
                    res.violation('C09/reap-without-spawn', 'reap event for pid %s which never had a spawn event'
                                  % pid, steps=steps)
                if pid in self.reaped:
                    res.violation('C09/duplicate-reap-event', 'pid %s got a second reap event' % pid, steps=steps)
                self.reaped.setdefault(pid, []).append(msg.get('exit_code'))
                up.discard(pid)
            elif kind == 'kill':
                res.obs['ev_kill'] += 1
                self.killed.setdefault(pid, t)
                if pid in up:
                    up.discard(pid)
            elif kind in ('start', 'stop'):
                res.obs['ev_' + kind] += 1
                self.last_ss[wn] = kind
        self.pos = len(events)


def judge(w, h, res, rec, steps):
    k = w.kernel
    k._settle()
    rec.feed(w.events(), steps)
    compared = 0
    for conf in h['watchers']:
        n = conf['name']
        tag = simhist.tag_of(n)
        live = set(k.live(tag))
        believed = set(rec.up.get(n, set()))
        compared += len(live | believed)
        if believed != live:
            ghost = sorted(believed - live)
            unseen = sorted(live - believed)
            if ghost:
                why = []
                for g in ghost:
                    p = k.procs.get(g)
                    why.append('%s:%s:%s' % (p.state if p else '?', p.cause.split(':')[0] if p and p.cause else '-',
                                             (p.reaped_by or '-') if p else '-'))
                mech = '[dropped-by-manage_processes]' if set(ghost) <= w.mp_drops else ''
                res.violation('C09/dead-pid-never-reaped-in-events' + mech,
                              'watcher %s: subscriber still believes %s alive (spawn seen, no reap/kill event); kernel: %s'
                              % (n, ghost, why), steps=steps)
            if unseen:
                res.violation('C09/live-pid-unknown-to-subscriber',
                              'watcher %s: live workers %s are not in the reconstruction' % (n, unseen), steps=steps)
        st = simhist.reported_status(w, n)
        last = rec.last_ss.get(n)
        if st not in ('active', 'stopped', 'starting', 'stopping'):
            # the watcher was removed (rm): nothing reports a status for it any more
            res.obs['removed_watchers_at_a_quiescent_point'] += 1
            last = None
        if last == 'start' and st != 'active':
            res.violation('C09/start-event-vs-status', 'last event for %s is start but status is %s' % (n, st))
        if last == 'stop' and st != 'stopped':
            res.violation('C09/stop-event-vs-status', 'last event for %s is stop but status is %s' % (n, st))
    # every pid spawned by the kernel has exactly one spawn event
    for pid, p in k.daemon_children().items():
        c = rec.spawned.get(pid, 0)
        if c != 1:
            res.violation('C09/spawn-event-count', 'pid %d (%s) has %d spawn events' % (pid, p.tag, c), steps=steps)
        # exit_code clause: died by itself / from outside while its watcher was active
        if p.state == 'gone' and p.cause in ('self', 'ext'):
            et = p.exit_t if p.exit_t is not None else 1e18
            if (pid in rec.killed and rec.killed[pid] + EPOCH <= et + 0.01) or \
                    any(snd == 'circus' and et - 0.01 <= t <= et + 0.01 for (t, sg, snd) in p.signals):
                # the daemon had announced that it is terminating this worker (kill event: a subscriber drops the
                # pid there) before it died, or signalled it at the very moment it died: "exits by itself" and
                # "terminated by the daemon" cannot be told apart; recorded, not judged.  (A worker that was already
                # dead when the daemon first announced / signalled anything did exit by itself.)
                res.ambiguous['self-death racing a daemon-sent termination'] += 1
                continue
            if any(snd == 'circus' for (t, sg, snd) in p.signals):
                # an earlier signal relayed by a `signal` request that the worker survived: it is still listed
                # by every subscriber, so when it later exits by itself the clause applies
                res.obs['self_deaths_after_a_survived_daemon_signal'] += 1
            want = -int(p.status & 0x7f) if (p.status & 0x7f) else (p.status >> 8) & 0xff
            got = rec.reaped.get(pid)
            active_then = _active_at(w, p)
            if not active_then:
                res.obs['self_deaths_while_not_active(not judged)'] += 1
                continue
            res.obs['self_deaths_judged'] += 1
            if not got:
                mech = '[dropped-by-manage_processes]' if pid in w.mp_drops else ''
                res.violation('C09/missing-reap-event' + mech, 'worker %d (%s) died by itself/outside (status %d) while its '
                              'watcher was active and no reap event was ever published (reaped by %s)'
                              % (pid, p.tag, p.status, p.reaped_by), steps=steps)
            elif got[0] != want:
                res.violation('C09/wrong-exit-code[%s]' % ('signal' if (p.status & 0x7f) else 'exit'),
                              'worker %d ended with wait status %d (expected exit_code %d) but the reap event says %s; '
                              'reaped by %s' % (pid, p.status, want, got[0], p.reaped_by), steps=steps)
            else:
                res.hist['exit_codes_seen'][want] += 1
    res.obs['quiescent_points'] += 1
    return compared


def _active_at(w, p):
    """was the watcher active when p died?  from the start/stop events around the exit time"""
    wn = p.tag[2:]
    state = None
    for t, topic, msg in w.events():
        parts = topic.split('.')
        if len(parts) >= 3 and parts[1] == wn and parts[2] in ('start', 'stop'):
            if t + 1e-9 < (p.exit_t - 1_000_000.0):
                state = parts[2]
            else:
                break
    if state != 'start':
        return False
    # ... and not being stopped: from the moment a stop / restart / rm / quit that covers it was accepted until its
    # next start event the watcher is "stopping" or "starting", whatever the event channel has said so far
    evs = w.events()
    for mid, rec in w.sent.items():
        if rec.get('cmd') not in ('stop', 'restart', 'rm', 'quit'):
            continue
        props = rec.get('props') or {}
        if props.get('name') is not None and simhist.tag_of(str(props['name'])) != p.tag:
            continue
        rep = w.reply(mid)
        if isinstance(rep, dict) and rep.get('status') == 'error':
            continue
        t_req = rec['t']
        if t_req > p.exit_t + 1e-9:
            continue
        t_start = None
        for t, topic, msg in evs:
            parts = topic.split('.')
            if len(parts) >= 3 and parts[1] == wn and parts[2] == 'start' and t + EPOCH >= t_req - 1e-9:
                t_start = t + EPOCH
                break
        if t_start is None or p.exit_t <= t_start + 1e-9:
            return False
    return True


@gen.coroutine
def _history(w, h, res, dry, out):
    k = w.kernel
    yield simhist.boot(w, h)
    r = simhist.Runner(w, h)
    rec = Reconstruction(res)
    mark = [None]
    compared = 0
    done = []
    for i, st in enumerate(h['steps']):
        if w.stalled is not None:
            break
        if st[0] == 'mark':
            mark[0] = k.calls
            continue
        if st[0] == 'qpoint':
            if (yield quiesce(w)):
                compared += judge(w, h, res, rec, list(done))
            continue
        yield r.do(i, st)
        done.append(st)
    if w.stalled is not None:
        res.obs['histories_stalled(C05 owns)'] += 1
        return
    ok = yield quiesce(w)
    if dry:
        out['n'] = k.calls - (mark[0] or k.calls)
    if not ok:
        res.obs['histories_not_quiescent(C05 owns)'] += 1
        return
    compared += judge(w, h, res, rec, done)
    if compared and not dry and (rec.spawned or rec.reaped):
        res.nontrivial(simhist.kernel_sig(w, done))
        if res.sample is None:
            res.sample = {'watchers': h['watchers'], 'steps': done, 'events': [(t, tp) for t, tp, m in w.events()][:25]}
    res.obs['events_total'] += len(w.events())


def starved(merged, tier):
    o = merged['obs']
    out = []
    if o.get('quiescent_points', 0) < 1000:
        out.append('only %d quiescent points' % o.get('quiescent_points', 0))
    if o.get('self_deaths_judged', 0) < 300:
        out.append('exit_code clause judged only %d times' % o.get('self_deaths_judged', 0))
    if o.get('boundaries_injected', 0) < 100:
        out.append('only %d boundary injections' % o.get('boundaries_injected', 0))
    return out


def precheck():
    from vlib.calibrate import calibrate
    return calibrate()


def shard_env(i, n):
    """one shard in four runs the daemon code with DEBUG set in its environment (circus then wraps its methods in
    tracing decorators at import time: a different code path through every call)"""
    return {'DEBUG': '1'} if i % 4 == 3 else None
