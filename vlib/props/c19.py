"""C19 — watchers start in priority order, paced by the warmup delays.

Engine SIM (exact virtual timestamps).  Oracle over the kernel spawn ledger after each trigger:
the spawn intervals of the watchers do not interleave and follow non-increasing priority,
consecutive spawns of one watcher are >= its warmup_delay apart, consecutive watchers are >= the
global warmup_delay apart, autostart=false watchers are left alone by the daemon start.
"""
from tornado import gen

from vlib import simhist
from vlib.common import CaseResult, rng_for
from vlib.sim import EPOCH

ID = 'C19'
LEVEL = 'exploration'
EPS = 1e-3
RULE = ('2-5 watchers with priorities from a small range (ties included), numprocesses 0-3, per-watcher '
        'warmup_delay {0,.2,1}, global warmup_delay {0,1,2}, autostart flags; triggers: daemon start, start (all), '
        'restart (all watchers by glob), start/restart by glob and by regex matching a subset; in a third of the '
        'runs a worker death is injected at a random kernel-call boundary of the sequence. non-trivial = at least '
        'two watchers spawned in one sequence; distinct = (priorities, numprocesses, warmups, trigger, spawn order)')
ASSUMPTIONS = ['virtual clock; no periodic check runs during a start sequence, so every spawn in it is an initial spawn',
               'ties in priority may start in any order but still one watcher after the other']
BUDGET = {'quick': 240, 'thorough': 1500}


def plan(tier, seed):
    n = 4000 if tier == 'quick' else 100000
    return ([{'seed': seed, 'idx': i} for i in range(n)] +
            [{'kind': 'live', 'seed': seed, 'idx': i} for i in range(2 if tier == 'quick' else 12)] +
            [{'kind': 'on-demand', 'seed': seed, 'idx': i} for i in range(12 if tier == 'quick' else 120)])


CASE_TIMEOUT = 120


def on_demand_case(spec, res):
    """the start that a connection to a managed socket triggers (several on-demand watchers) is a start like the
    others: descending priority, every worker of one watcher before the next watcher begins"""
    import socket
    from circus.sockets import CircusSocket
    rnd = rng_for(spec['seed'], 'C19-on-demand', spec['idx'])
    names = ['a_od', 'b_od', 'c_od', 'd_od']
    prios = rnd.sample([-3, 0, 1, 4, 9], 4) if spec['idx'] % 3 else [1, 5, 9, 0]     # name order is not priority order
    h = {'kill_latency': 0.0, 'watchers': [
        {'name': n, 'numprocesses': rnd.choice([1, 2]), 'priority': p, 'warmup_delay': rnd.choice([0, 0.2]),
         'graceful_timeout': 0.1, 'on_demand': True, 'use_sockets': True} for n, p in zip(names, prios)] + [
        {'name': 'plain', 'numprocesses': 1, 'graceful_timeout': 0.1, 'priority': 3}]}
    w = simhist.new_world(h)
    nv = len(res.viol)
    socks = []

    @gen.coroutine
    def go():
        ws = [simhist.make_watcher(w, c) for c in h['watchers']]
        lsock = CircusSocket('od', host='127.0.0.1', port=0)
        socks.append(lsock)
        arb = w.make_arbiter(ws, sockets=[lsock])
        yield arb.start()
        yield w.settle(30)
        l0 = len(w.kernel.log)
        c = socket.create_connection(('127.0.0.1', lsock.getsockname()[1]))
        socks.append(c)
        yield w.check()
        yield w.settle(60)
        order = []
        for e in w.kernel.log[l0:]:
            if e[1] == 'spawn' and e[3] in [simhist.tag_of(n) for n in names]:
                order.append(e[3])
        res.obs['on_demand_starts_judged'] += 1
        byprio = [simhist.tag_of(n) for n, p in sorted(zip(names, prios), key=lambda x: -x[1])]
        seen = []
        for t in order:
            if not seen or seen[-1] != t:
                seen.append(t)
        want = [t for t in byprio if t in seen]
        if len(seen) != len(set(seen)):
            res.violation('C19/interleaved-start:on-demand', 'spawn order %s: a watcher began before the previous one had all '
                          'its workers' % order)
        elif seen != want:
            res.violation('C19/priority-order:on-demand', 'a connection started the on-demand watchers in the order %s; '
                          'priorities %s say %s' % (seen, dict(zip(names, prios)), want))
        if len(seen) < 4:
            res.inconclusive.append('on-demand start spawned only %s' % seen)
        res.nontrivial(repr(('on-demand', tuple(prios))))
    try:
        w.run(go)
        for v in res.viol[nv:]:
            v['spec'] = dict(spec)
    finally:
        for s_ in socks:
            try:
                s_.close()
            except Exception:
                pass
        w.close()
    res.sample = res.sample or {'case': 'four on-demand watchers, one connection', 'priorities': dict(zip(names, prios))}


def live_case(spec, res):
    """the start order on a real circusd (which runs its own loop, unlike an arbiter embedded in a program): priority
    order, warm-up pacing, and watchers with autostart disabled left alone"""
    import glob
    import os
    import re
    import time
    from vlib import live
    rnd = rng_for(spec['seed'], 'C19-live', spec['idx'])
    nw = rnd.randint(4, 5)
    ws = []
    for i in range(nw):
        ws.append({'name': 'w%d' % i, 'priority': rnd.choice([-7, 0, 1, 2, 5, 9]), 'np': rnd.choice([1, 2]),
                   'warmup': rnd.choice([0, 0, 1]), 'autostart': rnd.random() < .6})
    # at least one watcher that is started, with a warm-up pause, before a watcher that must not be started
    ws[0].update(priority=9, autostart=True, np=2, warmup=1)
    ws[1].update(priority=rnd.choice([0, 5]), autostart=False)
    # a negative priority comes after the default one (whatever the names say)
    ws[2].update(priority=-5, autostart=True)
    ws[3].update(priority=0, autostart=True, warmup=1)
    d = live.Daemon('', strace=False)
    txt = d.header(check_delay=0.5)
    for w_ in ws:
        txt += ('[watcher:%s]\ncmd = %s\nnumprocesses = %d\npriority = %d\nwarmup_delay = %d\nautostart = %s\n'
                'graceful_timeout = 0.3\ncopy_env = True\n\n'
                % (w_['name'], live.worker_cmd({'log': '@LOG@', 'tagw': w_['name']}), w_['np'], w_['priority'], w_['warmup'],
                   w_['autostart']))
    d.ini = txt.replace('@DIR@', d.dir).replace('@LOG@', d.logdir)
    with open(d.ini_path, 'w') as f:
        f.write(d.ini)
    try:
        d.start()
        if not d.wait_ready(20):
            res.inconclusive.append('live: daemon not ready: ' + d.output()[-200:])
            return
        want = sum(w_['np'] for w_ in ws if w_['autostart'])
        if not d.workers_up(want, 30):
            res.inconclusive.append('live: %d workers expected, fewer came up' % want)
            return
        time.sleep(1.5)                  # three periodic checks
        table = {}
        for pid, state, stt in d.children():
            try:
                cmd = open('/proc/%d/cmdline' % pid, 'rb').read().decode('utf8', 'replace')
            except OSError:
                continue
            m = re.search(r'"tagw": "(\w+)"', cmd)
            if m:
                up = os.path.join(d.logdir, '%d.up' % pid)
                table.setdefault(m.group(1), []).append((float(open(up).read().split()[0]) if os.path.exists(up) else None, pid))
        statuses = d.call('status').get('statuses', {})
        res.obs['live_daemon_starts_judged'] += 1
        for w_ in ws:
            n = w_['name']
            if not w_['autostart']:
                res.obs['live_autostart_false_watchers_judged'] += 1
                if table.get(n) or statuses.get(n) != 'stopped':
                    res.violation('C19/live:autostart-false-watcher-started-by-the-daemon-start',
                                  'watcher %s has autostart = False; after the daemon start it reports %s and has the '
                                  'workers %s (watchers: %s)' % (n, statuses.get(n), table.get(n),
                                                                  [(x['name'], x['priority'], x['autostart']) for x in ws]))
        # priority order: every worker of a watcher of higher priority came up before those of a lower one
        started = sorted((w_ for w_ in ws if w_['autostart']), key=lambda x: -x['priority'])
        for a, b in zip(started, started[1:]):
            ta = [t for t, _ in table.get(a['name'], []) if t is not None]
            tb = [t for t, _ in table.get(b['name'], []) if t is not None]
            # judged where the earlier watcher pauses one second after each of its spawns: the order of two processes
            # that come up within milliseconds of each other says nothing
            if a['priority'] > b['priority'] and ta and tb and a['warmup'] >= 1:
                res.obs['live_priority_pairs_judged'] += 1
                if min(tb) < max(ta) - 0.3:      # (b is due a full second after a's last spawn: 1.3 s of slack for slow process start-up)
                    res.violation('C19/live:lower-priority-watcher-started-first',
                                  'workers of %s (priority %d) came up at %s, those of %s (priority %d) at %s'
                                  % (a['name'], a['priority'], sorted(ta), b['name'], b['priority'], sorted(tb)))
        res.nontrivial(repr(('live', [(x['priority'], x['np'], x['warmup'], x['autostart']) for x in ws])))
        res.sample = res.sample or {'live': True, 'watchers': ws, 'statuses': statuses}
    finally:
        d.cleanup()


def gen_spec(rnd):
    nw = rnd.randint(2, 5)
    ws = []
    for i in range(nw):
        ws.append({'name': 'w%d' % i, 'numprocesses': rnd.choice([0, 1, 1, 2, 3, 4]) if rnd.random() < .985 else rnd.choice([101, 130]), 'priority': rnd.choice([-3, 0, 1, 2, 2, 5]),
                   'warmup_delay': rnd.choice([0, 0, .2, 1]), 'autostart': rnd.random() < .8,
                   'graceful_timeout': rnd.choice([0, .2])})
        if rnd.random() < .3:
            # a spawn that has a real cost (a hook probing the new worker takes virtual time)
            ws[-1]['hooks'] = {'after_spawn': ['true+%s' % rnd.choice([0.05, 0.1]), False]}
        if rnd.random() < .15:
            # a start that fails half-way: a later spawn is refused, or after_start says no (the watcher is stopped
            # again, the sequence goes on with the next one)
            hk = rnd.choice([('before_spawn', '%s@%d' % (rnd.choice(['false', 'raise']), rnd.randint(2, 3))),
                             ('after_start', rnd.choice(['false', 'raise']))])
            ws[-1].setdefault('hooks', {})[hk[0]] = [hk[1], False]
    trig = rnd.choice(['boot', 'boot', 'start-all', 'restart-glob', 'start-glob', 'start-regex', 'restart-regex',
                       'restart-all-names', 'restart-during-check', 'reload-all-terminate', 'reload-all-terminate'])
    h = {'watchers': ws, 'arb': {'warmup_delay': rnd.choice([0, 0, 1, 2])}, 'trigger': trig,
         'death_at': rnd.randint(1, 40) if rnd.random() < .33 else None}
    if rnd.random() < .2:
        # the wall clock is stepped at a kernel-call boundary of the sequence: pacing is about durations
        h['clock'] = [rnd.randint(1, 40), rnd.choice([3600.0, 3600.0, 86400.0, 5.0, -3600.0, -5.0])]
    if rnd.random() < .25:
        # the set of watchers changes at run time before the group operation: one removed, one added (no start)
        h['swap'] = {'rm': rnd.choice([w['name'] for w in ws]),
                     'add': {'name': 'w9', 'numprocesses': rnd.choice([1, 2]), 'priority': 0,   # not settable through add
                             'warmup_delay': rnd.choice([0, .2]), 'autostart': True, 'graceful_timeout': 0.2}}
    return h


def run_case(spec):
    res = CaseResult()
    if spec.get('kind') == 'on-demand':
        on_demand_case(spec, res)
        return res
    if spec.get('kind') == 'live':
        live_case(spec, res)
        for v in res.viol:
            v['spec'] = spec
        return res
    h = spec if 'watchers' in spec else gen_spec(rng_for(spec['seed'], 'C19', spec['idx']))
    w = simhist.new_world(h)
    nv = len(res.viol)
    try:
        w.run(lambda: _run(w, h, res))
        for v in res.viol[nv:]:
            v['spec'] = h
        if w.breach():
            res.inconclusive.append('containment breach')
    finally:
        w.close()
    return res


def judge(w, h, res, l0, expected, label, must_not=()):
    """expected: list of watcher confs that the trigger starts"""
    k = w.kernel
    G = h['arb']['warmup_delay']
    spawns = {}
    for e in k.log[l0:]:
        if e[1] == 'spawn' and e[4] == 0:
            spawns.setdefault(e[3], []).append(e[0] - EPOCH)
    for c in must_not:
        if spawns.get(simhist.tag_of(c['name'])):
            res.violation('C19/autostart-false-started:' + label, 'watcher %s (autostart=false) got spawns at %s during %s'
                          % (c['name'], spawns[simhist.tag_of(c['name'])], label))
    iv = []
    for c in expected:
        ts = spawns.get(simhist.tag_of(c['name']), [])
        if not ts:
            continue
        if len(ts) < c['numprocesses'] and not c.get('hooks') and not h.get('death_at'):
            # "each one's workers all spawned before the next watcher begins": nothing refused a spawn here
            res.violation('C19/next-watcher-began-before-all-workers-were-spawned:' + label,
                          'watcher %s (numprocesses %d) had only %d workers spawned when the sequence went on'
                          % (c['name'], c['numprocesses'], len(ts)))
        ts = ts[:c['numprocesses']]
        iv.append((ts[0], ts[-1], c, ts))
        for a, b in zip(ts, ts[1:]):
            res.obs['intra_watcher_gaps'] += 1
            if b - a < c['warmup_delay'] - EPS:
                res.violation('C19/spawns-closer-than-warmup_delay:' + label,
                              'watcher %s (warmup_delay %s) spawned at %s' % (c['name'], c['warmup_delay'], ts))
    iv.sort(key=lambda x: x[0])
    order = [(x[2]['name'], x[2]['priority']) for x in iv]
    for (a0, a1, ca, tsa), (b0, b1, cb, tsb) in zip(iv, iv[1:]):
        res.obs['watcher_pairs'] += 1
        if b0 < a1 - EPS:
            res.violation('C19/interleaved-start:' + label, '%s began at %.3f before %s had spawned all its workers (%s)'
                          % (cb['name'], b0, ca['name'], tsa))
        if cb['priority'] > ca['priority']:
            res.violation('C19/priority-order:' + label, '%s (priority %d) started before %s (priority %d): %s'
                          % (ca['name'], ca['priority'], cb['name'], cb['priority'], order))
        if b0 - a1 < G - EPS:
            res.violation('C19/watchers-closer-than-global-warmup:' + label,
                          '%s started %.3fs after the last spawn of %s, global warmup_delay is %s'
                          % (cb['name'], b0 - a1, ca['name'], G))
        res.hist['inter_watcher_gap_minus_global_ms'][int((b0 - a1 - G) * 1000) // 100 * 100] += 1
    if len(iv) >= 2:
        res.nontrivial(repr(([(c['priority'], c['numprocesses'], c['warmup_delay'], c['autostart']) for c in h['watchers']],
                             G, label, order)))
        if res.sample is None:
            res.sample = {'watchers': h['watchers'], 'global_warmup': G, 'trigger': label,
                          'spawn_times': {x[2]['name']: [round(t, 3) for t in x[3]] for x in iv}}
    res.obs['sequences_judged'] += 1


@gen.coroutine
def _run(w, h, res):
    import re
    k = w.kernel
    ws = [simhist.make_watcher(w, c) for c in h['watchers']]
    arb = w.make_arbiter(ws, **h['arb'])
    confs = h['watchers']
    if h.get('death_at') and h['trigger'] == 'boot':
        _arm(w, h)
    if h['trigger'] == 'boot':
        _arm_clock(w, h, res)
    l0 = len(k.log)
    yield arb.start()
    yield w.settle(120)
    if w.stalled is not None:
        return
    auto = [c for c in confs if c['autostart']]
    judge(w, h, res, l0, auto, 'daemon-start', must_not=[c for c in confs if not c['autostart']])
    trig = h['trigger']
    if trig == 'boot':
        return
    if h.get('swap'):
        sw = h['swap']
        yield w.call('rm', name=sw['rm'], waiting=True)
        yield w.settle(60)
        a = sw['add']
        rep = yield w.call('add', name=a['name'], cmd=simhist.tag_of(a['name']),
                           options={k_: a[k_] for k_ in ('numprocesses', 'warmup_delay', 'graceful_timeout')})
        yield w.settle(30)
        if isinstance(rep, dict) and rep.get('status') == 'ok':
            confs = [c for c in confs if c['name'] != sw['rm']] + [a]
            res.obs['watcher_set_changed_before_the_sequence'] += 1
        else:
            confs = [c for c in confs if c['name'] != sw['rm']]
            res.hist['add_refused'][str(rep)[:120]] += 1
    if h.get('death_at'):
        _arm(w, h)
    # stop everything first for the start-type triggers so that the sequence really spawns
    if trig.startswith('start'):
        yield w.call('stop', waiting=True)
        yield w.settle(60)
    _arm_clock(w, h, res)
    if trig == 'restart-during-check':
        yield _during_check(w, h, res)
        return
    l0 = len(k.log)
    sel = confs
    if trig == 'start-all':
        rep = yield w.call('start', waiting=True)
    elif trig == 'restart-glob':
        rep = yield w.call('restart', name='w*', waiting=True)
    elif trig == 'start-glob':
        rep = yield w.call('start', name='w[0-2]', waiting=True)
        sel = [c for c in confs if c['name'] in ('w0', 'w1', 'w2')]
    elif trig == 'start-regex':
        rep = yield w.call('start', name='w(1|3|4)', match='regex', waiting=True)
        sel = [c for c in confs if c['name'] in ('w1', 'w3', 'w4')]
    elif trig == 'restart-regex':
        rep = yield w.call('restart', name='w[0-9]', match='regex', waiting=True)
    elif trig == 'restart-all-names':
        rep = yield w.call('restart', name='*', match='glob', waiting=True)
    elif trig == 'reload-all-terminate':
        # `reload` of the whole arbiter without the graceful mode is documented as a simple restart of every watcher
        rep = yield w.call('reload', graceful=False, waiting=True)
    yield w.settle(200)
    if w.stalled is not None:
        res.obs['stalled(C05 owns)'] += 1
        return
    if len(sel) < 2:
        res.obs['single_match(not a group start)'] += 1
        return
    judge(w, h, res, l0, [c for c in sel if c['autostart']], trig)


@gen.coroutine
def _during_check(w, h, res):
    """a restart / start request arriving while a periodic check is busy respawning that watcher's workers one
    warmup_delay apart: whatever is accepted, two spawns of the watcher are never closer than its warmup_delay"""
    k = w.kernel
    present = set(x.name for x in w.arb.watchers)
    cands = [c for c in h['watchers'] if c['name'] in present and c['autostart'] and c['numprocesses'] >= 2
             and c['warmup_delay'] > 0 and not c.get('hooks') and w.arb.get_watcher(c['name']).status() == 'active']
    if not cands:
        res.obs['restart-during-check:no-suitable-watcher'] += 1
        return
    c = cands[0]
    tag = simhist.tag_of(c['name'])
    for p in k.live(tag):
        k.kill(p, 9, sender='ext')
    l0 = len(k.log)
    w.loop.add_callback(w.check)
    accepted = 0
    for i in range(60):
        yield w.advance(0.05)
        mid = w.req('restart' if i % 2 == 0 else 'start', name=c['name'])
        rep = w.reply(mid)
        if isinstance(rep, dict) and rep.get('status') == 'ok':
            accepted += 1
            if accepted >= 2:
                break
    yield w.settle(200)
    if w.stalled is not None:
        res.obs['stalled(C05 owns)'] += 1
        return
    ts = [e[0] - EPOCH for e in k.log[l0:] if e[1] == 'spawn' and e[3] == tag]
    res.obs['restart_during_check_sequences'] += 1
    for a, b in zip(ts, ts[1:]):
        res.obs['intra_watcher_gaps'] += 1
        if b - a < c['warmup_delay'] - EPS:
            res.violation('C19/spawns-closer-than-warmup_delay:restart-during-check',
                          'watcher %s (warmup_delay %s): a periodic check was respawning its workers when restart/start '
                          'requests arrived; spawns at %s' % (c['name'], c['warmup_delay'], [round(t, 3) for t in ts]))
            break
    if len(ts) >= 2:
        res.nontrivial(repr(('restart-during-check', c['numprocesses'], c['warmup_delay'], len(ts), accepted)))


def _arm_clock(w, h, res):
    if not h.get('clock'):
        return
    k = w.kernel
    off, delta = h['clock']

    def step(kern, delta=delta):
        w.clock.wall_offset += delta
        res.obs['wall_clock_steps_during_a_sequence'] += 1
    prev = k.inject.get(k.calls + off)
    k.inject[k.calls + off] = step if prev is None else (lambda kern, a=prev, b=step: (a(kern), b(kern)))


def _arm(w, h):
    k = w.kernel

    def f(kern):
        live = kern.live()
        if live:
            kern.schedule_death(kern.procs[live[h['death_at'] % len(live)]], 0.0, 9, 'ext')
    k.inject[k.calls + h['death_at']] = f


def starved(merged, tier):
    o = merged['obs']
    out = []
    if o.get('watcher_pairs', 0) < 2000:
        out.append('only %d consecutive watcher pairs judged' % o.get('watcher_pairs', 0))
    if o.get('intra_watcher_gaps', 0) < 1000:
        out.append('only %d intra-watcher gaps judged' % o.get('intra_watcher_gaps', 0))
    return out


def precheck():
    from vlib.calibrate import calibrate
    return calibrate()


def shard_env(i, n):
    """one shard in four runs the daemon code with DEBUG set in its environment (tracing decorators)"""
    return {'DEBUG': '1'} if i % 4 == 3 else None
