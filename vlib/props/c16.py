"""C16 — configuration files mean what the documentation says.

Engine REF: generated ini files are read by the real circus.config.get_config (and a Watcher is
built from every watcher dict) and by a reference reader written from the documentation
(vlib/ref/configreader.py); every option value/type/default and every environment must agree, and
parsing the same file twice must give equal configurations.
"""
import os
import resource
import shutil
import tempfile

from vlib.common import CaseResult, rng_for
from vlib.ref.configreader import TYPED, reference

ID = 'C16'
LEVEL = 'exploration'
RULE = ('generated ini files: 1-4 watcher sections, optional [env], 0-4 [env:PATTERN] sections (exact names, '
        'wildcards, comma lists with blanks, non-matching patterns) in shuffled order, 0-2 socket and plugin '
        'sections, every documented option with values of its type (all spellings of booleans, signal names and '
        'numbers, ints, floats), stream / rlimit / hook options, free-form options, references $(circus.env.X) / '
        '((circus.env.X)) in random letter case to variables defined in [env], in matching [env:...] sections or in '
        'the (controlled) daemon environment, placed in any option. non-trivial = the file has an env section or a '
        'reference or a typed option; distinct = the file text')
ASSUMPTIONS = ['variable names never collide ignoring case; values of env sections contain no references; typed '
               'options only refer to variables of [env] / os.environ; identical section headers are not repeated '
               '(all recorded as ambiguous classes in DESIGN.md)',
               'the daemon environment is replaced by a small controlled one inside the check process']
BUDGET = {'quick': 240, 'thorough': 1500}
BOOL_T = ['true', 'True', 'yes', 'on', '1', 'YES', 'On']
BOOL_F = ['false', 'no', 'Off', '0', 'False', 'NO']
OSENV = {'HOME': '/root', 'OSV': 'fromos', 'PATH': '/usr/bin:/bin'}
ENVVARS = ['alpha', 'Beta', 'GAMMA', 'osv', 'delta_1']
_D = [None]


def plan(tier, seed):
    n = 12000 if tier == 'quick' else 300000
    return [{'seed': seed, 'idx': i} for i in range(n)]


def gen(rnd):
    secs = []
    nW = rnd.randint(1, 4)
    wnames = rnd.sample(['w1', 'w2', 'web', 'worker', 'Wx', 'w-3', 'a.b'], nW)

    def val_ref(pool=None):
        v = rnd.choice(pool or (ENVVARS + ['home']))
        v = ''.join(c.upper() if rnd.random() < .5 else c.lower() for c in v)
        return rnd.choice(['$(circus.env.%s)', '((circus.env.%s))', '$(CIRCUS.ENV.%s)', '((Circus.Env.%s))']) % v
    has_ref = False
    for w in wnames:
        c = rnd.choice(['prog', 'prog --x ' + val_ref(), val_ref(), 'prog "quoted arg" $HOME'])
        items = [('cmd', c)]
        opts = list(TYPED) + ['args', 'working_dir', 'custom_opt', 'stdout_stream.class', 'stdout_stream.filename',
                              'stderr_stream.class', 'rlimit_nofile', 'rlimit_core', 'hooks.before_start',
                              'hooks.after_spawn', 'uid_free', 'executable']
        for k in rnd.sample(opts, rnd.randint(0, 7)):
            t = TYPED.get(k)
            if t == 'int' and k == 'priority':
                v = rnd.choice(['0', '3', '-5', '-1', '12', '+2'])      # any integer, also a signed one
            elif t == 'int':
                v = str(rnd.randint(0, 9))
            elif t == 'float':
                v = rnd.choice(['3', '2.5', '0', '0.25'])
            elif t in ('b0', 'b1'):
                v = rnd.choice(BOOL_T + BOOL_F)
            elif t == 'sig':
                v = rnd.choice(['quit', 'INT', 'SIGTERM', '3', 'sigusr1', 'Hup', '10', 'SIGRTMIN+1'])
            elif k == 'args':
                v = rnd.choice(['-a ' + val_ref(), 'plain', '$(circus.wid) x', '--name=((circus.env.nosuchvar_zz))',
                                '--tag #7 --colour #ff8800'])     # a '#' inside a value is not a comment
            elif k == 'working_dir':
                v = rnd.choice(['/tmp', '/tmp/' + val_ref()])
            elif k in ('custom_opt', 'uid_free'):
                v = rnd.choice(['free', val_ref(), 'with spaces and = sign', 'fg #ff8800'])
            elif k.endswith('.class'):
                v = 'StdoutStream'
            elif k == 'stdout_stream.filename':
                v = '/tmp/' + val_ref() + '.log'
            elif k.startswith('rlimit_'):
                v = rnd.choice(['500', '', '0'])
            elif k.startswith('hooks.'):
                v = rnd.choice(['os.path.exists', 'os.path.exists, true', 'os.path.exists,False', 'os.path.isdir , yes'])
            elif k == 'executable':
                v = '/bin/prog'
            items.append((k, v))
        if any('circus.env' in v.lower() for _, v in items):
            has_ref = True
        secs.append(('watcher', w, items))
    if rnd.random() < .7:
        # values of the [env] section may themselves refer to variables of the daemon's own environment
        secs.append(('env', '', [(v, ('g-' + v if rnd.random() < .9 else '') if rnd.random() < .75 else
                                  'g-' + v + rnd.choice([':$(circus.env.home)', '-((circus.env.HOME))', ':$(CIRCUS.ENV.Path)']))
                                 for v in rnd.sample(ENVVARS, rnd.randint(1, 4))]))
    used = set()
    for _ in range(rnd.randint(0, 4)):
        pat = rnd.choice([rnd.choice(wnames), 'w*', '*', ','.join(rnd.sample(wnames, min(2, len(wnames)))), 'nomatch',
                          ' %s , %s ' % (wnames[0], wnames[-1]), '?%s' % wnames[0][1:], 'W*'])
        if pat in used:
            continue
        used.add(pat)
        secs.append(('env:', pat, [(v, 'p-%s-%d' % (v, rnd.randint(0, 99))) for v in rnd.sample(ENVVARS, rnd.randint(1, 2))]))
    for i in range(rnd.randint(0, 2)):
        secs.append(('other', 'socket:s%d' % i, [('host', '127.0.0.1'), ('port', str(9000 + i))]))
    for i in range(rnd.randint(0, 1)):
        secs.append(('other', 'plugin:p%d' % i, [('use', 'circus.plugins.flapping.Flapping')]))
    rnd.shuffle(secs)
    # typed options may only refer to [env]/os.environ variables (an env:NAME-only variable is ambiguous)
    text = '[circus]\ncheck_delay = 3\n\n'
    for kind, name, items in secs:
        hdr = {'watcher': 'watcher:' + name, 'env': 'env', 'env:': 'env:' + name, 'other': name}[kind]
        text += '[%s]\n' % hdr + ''.join('%s = %s\n' % kv for kv in items) + '\n'
    return text, secs, has_ref


def run_case(spec):
    from circus.config import get_config
    from circus.watcher import Watcher
    res = CaseResult()
    if _D[0] is None:
        _D[0] = tempfile.mkdtemp(prefix='verif-c16-')
        import atexit
        atexit.register(shutil.rmtree, _D[0], True)
    rnd = rng_for(spec['seed'], 'C16', spec['idx'])
    if 'text' in spec:
        text, secs = spec['text'], [tuple(x) for x in spec['secs']]
        secs = [(a, b, [tuple(i) for i in c]) for a, b, c in secs]
        has_ref = True
    else:
        text, secs, has_ref = gen(rnd)
    path = os.path.join(_D[0], 't.ini')
    with open(path, 'w') as f:
        f.write(text)
    saved = dict(os.environ)
    os.environ.clear()
    os.environ.update(OSENV)
    nv = len(res.viol)
    try:
        try:
            cfg = get_config(path)
            cfg2 = get_config(path)
        except Exception as e:
            res.violation('C16/valid-file-rejected:%s' % type(e).__name__, 'get_config raised %r on a file built from '
                          'documented options' % (e,), text=text)
            return res
        res.obs['files'] += 1
        if cfg != cfg2:
            res.violation('C16/parsing-twice-differs', 'two get_config calls on the same file differ', text=text)
        if spec['idx'] % 3 == 0:
            # the same path is rewritten by the next case: the number of earlier parses of a path must not matter
            cfg3 = get_config(path)
            res.obs['third_parse'] += 1
            if cfg3 != cfg:
                res.violation('C16/parsing-twice-differs', 'a third get_config call on the same file differs', text=text)
        ref = reference(secs, OSENV)
        got = {w['name']: w for w in cfg['watchers']}
        if set(got) != set(ref):
            res.violation('C16/watcher-names-differ', 'get_config has %s, the file defines %s' % (sorted(got), sorted(ref)),
                          text=text)
            return res
        built = {}
        for n in ref:
            g = dict(got[n])
            r = ref[n]
            if g.get('rlimits', {}):
                g['rlimits'] = {k: (-1 if v == resource.RLIM_INFINITY else v) for k, v in g['rlimits'].items()}
            # '__name__' in the watcher dict is the parser's section marker (the repository's own tests
            # rely on it being there); it is not an option and is not compared
            g.pop('__name__', None)
            for k in sorted(set(g) | set(r)):
                gv, rv = g.get(k, 'MISSING'), r.get(k, 'MISSING')
                res.obs['option_values_compared'] += 1
                if k == 'env':
                    extra = {x: gv[x] for x in gv if x not in rv}
                    missing = {x: rv[x] for x in rv if x not in gv}
                    wrong = {x: (gv[x], rv[x]) for x in gv if x in rv and gv[x] != rv[x]}
                    if extra:
                        res.violation('C16/env-has-variable-nobody-wrote[%s]' % ','.join(sorted(extra))[:40],
                                      'watcher %s gets environment variable(s) %s that no section defines' % (n, extra),
                                      text=text)
                    if missing or wrong:
                        res.violation('C16/env-precedence', 'watcher %s environment: missing %s, wrong (got, documented) %s'
                                      % (n, missing, wrong), text=text)
                elif rv == 'MISSING':
                    res.violation('C16/option-nobody-wrote[%s]' % k, 'watcher %s has option %s=%r that the file does not '
                                  'define' % (n, k, gv), text=text)
                elif gv != rv or type(gv) is not type(rv) and not (isinstance(gv, (int, float)) and isinstance(rv, (int, float))):
                    res.violation('C16/option-value[%s]' % (k if k in TYPED or k in ('cmd', 'args') else k.split('.')[0]),
                                  'watcher %s option %s: get_config %r (%s), documentation says %r (%s)'
                                  % (n, k, gv, type(gv).__name__, rv, type(rv).__name__), text=text)
            # the Watcher built from it
            try:
                wobj = Watcher.load_from_config(dict(got[n], env=dict(got[n]['env'])))
            except Exception as e:
                res.obs['watcher_ctor_raised:%s' % type(e).__name__] += 1
                continue
            res.obs['watchers_built'] += 1
            built[n] = (wobj, r)
            want_env = dict(OSENV) if r['copy_env'] else {}
            want_env.update(r['env'])
            if r.get('copy_path'):
                continue
            wenv = dict(wobj.env or {})
            extra = {x: wenv[x] for x in wenv if x not in want_env}
            if extra and not any(v['key'].startswith('C16/env-has-variable') for v in res.viol[nv:]):
                res.violation('C16/env-has-variable-nobody-wrote[%s]' % ','.join(sorted(extra))[:40],
                              'Watcher %s would start workers with variable(s) %s' % (n, extra), text=text)
            bad = {x: (wenv.get(x), want_env[x]) for x in want_env if wenv.get(x) != want_env[x]}
            if bad:
                res.violation('C16/worker-env-precedence', 'Watcher %s env (got, documented): %s' % (n, bad), text=text)
            for k in ('numprocesses', 'graceful_timeout', 'stop_signal', 'priority', 'singleton', 'autostart', 'respawn'):
                if getattr(wobj, k) != r[k]:
                    res.violation('C16/watcher-attribute[%s]' % k, 'Watcher %s.%s=%r, file says %r'
                                  % (n, k, getattr(wobj, k), r[k]), text=text)
        # "hooks.X = name, true" asks to ignore failures of that hook of that watcher -- judged once every watcher of
        # the file exists (a flag must not travel from one section to another)
        for n, (wobj, r) in built.items():
            for hname in ('before_start', 'after_spawn', 'before_spawn', 'after_start'):
                want = bool(r['hooks'].get(hname, [None, False])[1])
                have = hname in wobj.ignore_hook_failure
                res.obs['hook_ignore_flags_compared'] += 1
                if want != have:
                    res.violation('C16/hook-ignore-flag[%s]' % ('set-by-another-section' if have else 'lost'),
                                  'watcher %s: failures of hook %s are %signored, its section says %r'
                                  % (n, hname, '' if have else 'not ', r['hooks'].get(hname)), text=text)
    finally:
        os.environ.clear()
        os.environ.update(saved)
        for v in res.viol[nv:]:
            v['spec'] = {'seed': spec['seed'], 'idx': spec['idx'], 'text': text, 'secs': secs}
            v['detail'].pop('text', None)
    if has_ref or any(k in ('env', 'env:') for k, _, _ in secs):
        res.nontrivial(text)
    res.sample = {'file': text}
    return res


def starved(merged, tier):
    o = merged['obs']
    out = []
    if o.get('files', 0) < 1000:
        out.append('only %d files parsed' % o.get('files', 0))
    if o.get('watchers_built', 0) < 1000:
        out.append('only %d Watcher objects built' % o.get('watchers_built', 0))
    return out
