"""hooks that configuration files of the C12 check name by their dotted path"""


def ok(*args, **kwargs):
    return True
