"""C13 — each worker runs exactly the configured command line, environment and directory.

REF: Process.format_args on generated cmd/args against an independent model (vlib/ref/argv.py),
exhaustive over short token sequences.  SIM: the arguments of the process-creation call captured
by the simulated kernel over histories of deaths / incr / decr / reload / restart — argv, env and
cwd of every spawn, and uniqueness / positivity of worker ids among live workers.
"""
import itertools
import os
import shlex

from tornado import gen

from vlib import simgen, simhist
from vlib.common import CaseResult, rng_for
from vlib.ref.argv import SplitError, argv_model, posix_split

ID = 'C13'
LEVEL = 'exploration'
RULE = ('REF: every sequence of length <= 4 (quick 3) over a 12-token alphabet (plain word, space, single quote, '
        'double quote, backslash, $, $(circus.wid), ((circus.env.foo)), $(CIRCUS.ENV.Bar) whose value has a space, '
        'an unknown $(circus.zz_u), "((", ")") used as cmd tail, as args string and as a list element, shell on/off; '
        'random longer sequences over a 30-token alphabet. SIM: random histories (deaths, incr, decr, set, reload x3, '
        'restart, checks) on watchers whose cmd embeds $(circus.wid) and an env reference, args as string or list, '
        'working_dir, env with and without copy_env. non-trivial = the model produced words (or both sides raised) '
        'for a string containing a quote, a reference or a dollar / a history with >=1 respawn; distinct = the '
        'input string or the canonical kernel trace')
ASSUMPTIONS = ['unknown reference names come from the reserved pool zz_* (every Process/Watcher option name is a known '
               'variable by the documentation)', 'environment names never collide ignoring case',
               'substituted values never contain reference syntax (substitution is single-pass)']
EXHAUSTIVE = {'quick': 'all token sequences of length <= 3 over the 12-token alphabet x 3 roles x shell on/off',
              'thorough': 'all token sequences of length <= 4 over the 12-token alphabet x 3 roles x shell on/off'}
BUDGET = {'quick': 240, 'thorough': 1500}

ENV = {'foo': 'v1', 'Bar': 'b 2', 'Q': "it's"}
ALPHA = ['a', ' ', "'", '"', '\\', '$', '$(circus.wid)', '((circus.env.foo))', '$(CIRCUS.ENV.Bar)', '$(circus.zz_u)',
         '((', ')']
BIG = ALPHA + ['$$', '((circus.wid))', '$(circus.env.q)', '((circus.zz_u2))', '$(', '))', 'x=$(circus.wid)y',
               '$(circus.wid', '$(other.wid)', '$HOME', 'é', '\t', '--opt=1', '"c d"', "'e f'", '\\ ', '$(circus.WID)',
               '((Circus.Env.FOO))', '#', ';',
               # plain shell-style names that merely begin like the old `$WID` placeholder: literal text
               '$WIDTH', '--home=$WIDGET_HOME', '$WIDe']


def variables(wid):
    v = {'wid': str(wid)}
    for k, val in ENV.items():
        v['env.' + k.lower()] = val
    return v


def plan(tier, seed):
    L = 3 if tier == 'quick' else 4
    out = []
    for first in ALPHA:
        for second in ALPHA + [None]:
            out.append({'kind': 'exh', 'first': first, 'second': second, 'L': L})
    n = 300 if tier == 'quick' else 6000
    out += [{'kind': 'rnd', 'seed': seed, 'idx': i} for i in range(n)]
    m = 1500 if tier == 'quick' else 40000
    out += [{'kind': 'sim', 'seed': seed, 'idx': i} for i in range(m)]
    c = 300 if tier == 'quick' else 8000
    out += [{'kind': 'cfg', 'seed': seed, 'idx': i} for i in range(c)]
    return out


def check_argv(res, cmd, args, shell, wid, ctx=''):
    from circus.process import Process
    import warnings
    warnings.simplefilter('ignore')
    p = Process('n', wid, cmd, args=args, shell=shell, env=dict(ENV), spawn=False)
    try:
        got = p.format_args()
    except ValueError:
        got = 'ValueError'
    try:
        want = argv_model(cmd, args, variables(wid))
    except SplitError:
        want = 'ValueError'
    res.obs['argv_cases'] += 1
    if want == 'ValueError' or got == 'ValueError':
        ok = want == got
    elif shell:
        ok = isinstance(got, list) and len(got) == 1
        if ok:
            try:
                ok = posix_split(got[0]) == want and shlex.split(got[0]) == want
            except ValueError:
                ok = False
    else:
        ok = got == want
    if not ok:
        res.violation('C13/argv-differs-from-model[%s,shell=%s]' % ('args-' + type(args).__name__, shell),
                      'cmd=%r args=%r shell=%s wid=%d: circus %r, model %r' % (cmd, args, shell, wid, got, want),
                      _spec={'kind': 'one', 'cmd': cmd, 'args': args, 'shell': shell, 'wid': wid})
    return ok


def cross_check_splitter(res, s):
    """the model's own splitter must agree with shlex (else the MODEL is wrong: inconclusive)"""
    try:
        a = posix_split(s)
    except SplitError:
        a = 'E'
    try:
        b = shlex.split(s)
    except ValueError:
        b = 'E'
    if a != b:
        res.inconclusive.append('model splitter disagrees with shlex on %r: %r vs %r' % (s, a, b))


def run_case(spec):
    res = CaseResult()
    k = spec['kind']
    if k == 'one':
        check_argv(res, spec['cmd'], spec['args'], spec['shell'], spec['wid'])
        return res
    if k == 'exh':
        L = spec['L']
        head = [spec['first']] + ([spec['second']] if spec['second'] is not None else [])
        tails = [()] if spec['second'] is None else itertools.chain.from_iterable(
            itertools.product(ALPHA, repeat=r) for r in range(0, L - 1))
        n = 0
        for tail in tails:
            s = ''.join(head + list(tail))
            cross_check_splitter(res, s)
            for shell in (False, True):
                wid = 1 + (n % 9)
                n += 1
                ok = check_argv(res, 'prog ' + s, None, shell, wid)
                ok = check_argv(res, 'prog', s, shell, wid) and ok
                ok = check_argv(res, 'prog x', [s, 'tail'], shell, wid) and ok
            if any(c in s for c in '\'"$\\('):
                res.nontrivial(s)
        res.sample = {'exhaustive_prefix': head, 'example': 'prog ' + ''.join(head) + "'"}
        for v in res.viol:
            v['spec'] = v['detail'].pop('_spec')
        return res
    rnd = rng_for(spec['seed'], 'C13', k, spec['idx'])
    if k == 'rnd':
        for _ in range(60):
            toks = [rnd.choice(BIG) for _ in range(rnd.randint(1, 9))]
            s = (' ' if rnd.random() < .5 else '').join(toks)
            cross_check_splitter(res, s)
            mode = rnd.choice(['none', 'str', 'list'])
            args = None if mode == 'none' else (' '.join(rnd.sample(BIG, 2)) if mode == 'str' else rnd.sample(BIG, 3))
            check_argv(res, 'prog ' + s, args, rnd.random() < .3, rnd.randint(1, 12))
            res.nontrivial(s + repr(args))
        res.sample = {'cmd': 'prog ' + s, 'args': args}
        for v in res.viol:
            v['spec'] = v['detail'].pop('_spec')
        return res
    if k == 'cfg':
        cfg_case(spec, rnd, res)
        return res
    # ---- SIM
    h = spec.get('h') or gen_sim(rnd)
    w = simhist.new_world(h)
    nv = len(res.viol)
    try:
        w.run(lambda: _sim(w, h, res))
        for v in res.viol[nv:]:
            v['spec'] = {'kind': 'sim', 'h': h, 'seed': 0, 'idx': 0}
        if w.breach():
            res.inconclusive.append('containment breach')
    finally:
        w.close()
    return res


def cfg_case(spec, rnd, res):
    """a daemon loaded from an ini file in SIM: every worker's environment and directory must be exactly what
    the file configures (reference reading: vlib/ref/configreader.py)"""
    import shutil
    import tempfile
    from vlib import sim as simmod
    from vlib.ref.configreader import reference
    names = rnd.sample(['w1', 'w2', 'web', 'Wx'], rnd.randint(2, 3))
    secs = []
    for n in names:
        items = [('cmd', 'w_%s --wid $(circus.wid)' % n.lower()), ('numprocesses', str(rnd.randint(1, 2))),
                 ('graceful_timeout', '0.1'), ('working_dir', rnd.choice(['/tmp', '/']))]
        if rnd.random() < .3:
            items.append(('copy_env', 'true'))
        secs.append(('watcher', n, items))
    if rnd.random() < .7:
        secs.append(('env', '', [('GLOBALV', 'g'), ('SHARED', 'from-env')]))
    for pat in rnd.sample(names + ['w*', '*'], rnd.randint(1, 3)):
        secs.append(('env:', pat, [('SHARED', 'from-' + pat), ('ONLY_%s' % pat.strip('*').upper() or 'ALL', pat)]))
    rnd.shuffle(secs)
    text = '[circus]\ncheck_delay = -1\nendpoint = ipc:///sim/ctrl\npubsub_endpoint = ipc:///sim/pub\n\n'
    for kind, name, items in secs:
        hdr = {'watcher': 'watcher:' + name, 'env': 'env', 'env:': 'env:' + name}[kind]
        text += '[%s]\n' % hdr + ''.join('%s = %s\n' % kv for kv in items) + '\n'
    d = tempfile.mkdtemp(prefix='verif-c13-')
    path = os.path.join(d, 'c.ini')
    open(path, 'w').write(text)
    w = simhist.new_world({})
    nv = len(res.viol)
    try:
        def go():
            arb = w.load_arbiter(path)
            f = arb.start()
            return f
        from tornado import gen as _gen

        @_gen.coroutine
        def run():
            arb = w.load_arbiter(path)
            yield arb.start()
            yield w.settle(30)
            # one more generation
            for p in w.kernel.live():
                w.kernel.kill(p, 9, sender='ext')
            yield w.advance(1.0)
            yield w.check()
            yield w.settle(30)
        w.run(run)
        ref = reference(secs, dict(os.environ))
        for p in w.kernel.procs.values():
            if not p.spawn_no:
                continue
            owner = [n for n in names if p.tag == 'w_' + n.lower()]
            if not owner:
                continue
            r = ref[owner[0]]
            want = dict(os.environ) if r['copy_env'] else {}
            want.update(r['env'])
            res.obs['cfg_spawns_checked'] += 1
            got = dict(os.environ) if p.env is None else p.env      # env=None: the child inherits the daemon's
            if got != want:
                extra = {k_: got[k_] for k_ in got if k_ not in want}
                wrong = {k_: (got.get(k_), want[k_]) for k_ in want if got.get(k_) != want[k_]}
                res.violation('C13/worker-env-differs-from-file', 'worker of %s started with an environment that is not '
                              'the configured one: extra %s, wrong/missing (got, configured) %s'
                              % (owner[0], dict(list(extra.items())[:4]), dict(list(wrong.items())[:4])), text=text)
            if p.cwd != r['working_dir']:
                res.violation('C13/worker-cwd-differs-from-file', 'cwd %r, file says %r' % (p.cwd, r['working_dir']))
        res.nontrivial(text)
        res.sample = {'file': text}
    finally:
        w.close()
        shutil.rmtree(d, ignore_errors=True)
        for v in res.viol[nv:]:
            v['spec'] = dict(spec)


KINDS = ['incr', 'incr', 'decr', 'setnp', 'restart', 'reload', 'reloadseq', 'reloadterm', 'extkill', 'extkill', 'selfexit',
         'check', 'check', 'advance', 'dieat', 'kill', 'kill']


def gen_sim(rnd):
    argsmode = rnd.choice(['none', 'str', 'list'])
    conf = simgen.gen_watcher(rnd, 'a', np_choices=(1, 2, 3, 4))
    conf['singleton'] = False
    conf['cmd'] = 'w_a --wid $(circus.wid) --k ((circus.env.Kk))'
    if rnd.random() < .5 and os.environ.get('HOME'):
        # a reference to a variable that only the daemon's own environment has: expanded with copy_env, left as it
        # is without
        conf['cmd'] += ' --h $(circus.env.HOME)'
    if argsmode == 'str':
        conf['args'] = "--n $(CIRCUS.WID) 'quoted arg' $(circus.zz_u)"
    elif argsmode == 'list':
        conf['args'] = ['--n', '$(circus.wid)', 'spaced arg', '$(circus.zz_u)']
    conf['env'] = {'Kk': 'val', 'OTHER': 'o'}
    conf['copy_env'] = rnd.random() < .3
    if rnd.random() < .2:
        conf['env'] = None                       # no environment configured at all
    conf['working_dir'] = rnd.choice(['/tmp', '/', '/usr', None, None])     # None: not configured
    steps = simgen.gen_steps(rnd, ['a'], KINDS, 2, 9)
    if rnd.random() < .4:
        # the configuration is changed at run time (`set`): workers spawned afterwards run the new one
        for _ in range(rnd.randint(1, 2)):
            opt = rnd.choice([{'env': {'Kk': 'v2', 'NEW': 'n'}}, {'env': {'Kk': 'v 3'}},
                              {'cmd': 'w_a --wid $(circus.wid) --k2 ((circus.env.Kk)) x'},
                              {'args': "--m $(circus.env.Kk) 'q r'"}, {'args': ['--l', '$(circus.wid)']},
                              {'working_dir': '/var'}])
            steps.insert(rnd.randint(0, len(steps)), ['setcfg', opt])
    return {'kill_latency': rnd.choice([0.0, 0.002]), 'watchers': [conf], 'steps': steps}


@gen.coroutine
def _sim(w, h, res):
    from vlib.props.c04 import quiesce
    k = w.kernel
    conf = h['watchers'][0]
    yield simhist.boot(w, h)
    r = simhist.Runner(w, h)
    # worker ids of the first workers start at 1
    first = sorted(int(p.argv[2]) for p in k.procs.values() if p.spawn_no and p.tag == 'w_a')
    if first != list(range(1, len(first) + 1)):
        res.violation('C13/first-wids-not-1..n', 'initial workers got wids %s' % first)
    checked = 0

    def uniq(where):
        # a worker that has already been sent SIGKILL and is within the kernel's kill latency is not
        # a live worker of the watcher any more
        live = [p for p in k.live('w_a') if not (k.procs[p].death_at is not None and k.procs[p].cause == 'circus:9')]
        wids = [k.procs[p].argv[2] for p in live]
        res.obs['wid_uniqueness_checks'] += 1
        bad = [x for x in wids if not x.isdigit() or int(x) < 1]
        if bad or len(set(wids)) != len(wids):
            res.violation('C13/wids-not-unique-positive', '%s: live workers %s have wids %s' % (where, live, wids),
                          steps=h['steps'])
    base_env = dict(os.environ) if conf.get('copy_env') else {}
    base_env.update(conf['env'] or {})
    # configuration epochs: (virtual time from which it is in force, cmd, args, env, working_dir)
    # without a configured working_dir the workers run where the daemon runs (its real current directory, whatever
    # a PWD variable in its environment says)
    epochs = [(-1.0, conf['cmd'], conf.get('args'), base_env, conf['working_dir'] or os.getcwd())]
    for i, st in enumerate(h['steps']):
        if w.stalled is not None:
            break
        if st[0] == 'setcfg':
            t0 = k.clock.now
            mid = w.req('set', name='a', options=dict(st[1]), waiting=False)
            rep = w.reply(mid)
            if isinstance(rep, dict) and rep.get('status') == 'ok':
                _, c_, a_, e_, d_ = epochs[-1]
                o = st[1]
                epochs.append((t0, o.get('cmd', c_), o.get('args', a_), dict(o['env']) if 'env' in o else e_,
                               o.get('working_dir', d_)))
                res.obs['configuration_changed_by_set'] += 1
            else:
                res.obs['set_refused(not applied)'] += 1
            yield w.advance(0)
            if w.stalled is None:
                uniq('after step %d %s' % (i, st))
            continue
        yield r.do(i, st)
        # unique "through any history": also while a (non-exclusive) kill is in its grace period
        if w.stalled is None:
            uniq('after step %d %s' % (i, st))
    if w.stalled is None:
        ok = yield quiesce(w)
        if ok:
            uniq('final quiescent point')
    nsp = 0
    for p in k.procs.values():
        if not p.spawn_no or p.tag != 'w_a':
            continue
        nsp += 1
        ep = [e for e in epochs if e[0] <= p.created][-1]
        _, cmd_, args_, env_, cwd_ = ep
        if ep is not epochs[0]:
            res.obs['spawns_checked_after_a_set'] += 1
        wid = p.argv[2] if len(p.argv) > 2 else '?'
        vars_ = {'wid': wid}
        for kk, vv in env_.items():
            vars_['env.' + kk.lower()] = vv
        try:
            want = argv_model(cmd_, args_, vars_)
        except SplitError:
            continue
        if p.argv != want:
            res.violation('C13/spawn-argv-differs' + ('[after-set]' if ep is not epochs[0] else ''),
                          'spawned argv %r, model %r (configuration in force: cmd=%r args=%r env=%r)'
                          % (p.argv, want, cmd_, args_, {a: b for a, b in env_.items() if a not in os.environ}),
                          steps=h['steps'])
        eff_env = dict(os.environ) if p.env is None else p.env     # env=None: the child inherits the daemon's
        if eff_env != env_:
            diff = set(eff_env.items()) ^ set(env_.items())
            res.violation('C13/spawn-env-differs[copy_env=%s]' % conf.get('copy_env'),
                          'worker environment differs from the configured one: %s' % sorted(diff)[:6])
        if p.cwd != cwd_:
            res.violation('C13/spawn-cwd-differs', 'cwd %r, configured %r' % (p.cwd, cwd_))
        if p.popen_kw.get('shell'):
            res.violation('C13/unexpected-shell', 'shell=True passed to the process-creation call')
    res.obs['spawns_checked'] += nsp
    if nsp > conf['numprocesses']:
        res.nontrivial(simhist.kernel_sig(w, h['steps']))
        if res.sample is None:
            res.sample = {'watcher': conf, 'steps': h['steps'],
                          'argv_of_last_spawn': [p.argv for p in k.procs.values() if p.spawn_no][-1]}


def starved(merged, tier):
    o = merged['obs']
    out = []
    if o.get('argv_cases', 0) < 5000:
        out.append('only %d argv cases' % o.get('argv_cases', 0))
    if o.get('spawns_checked', 0) < 3000:
        out.append('only %d spawn records checked' % o.get('spawns_checked', 0))
    if o.get('wid_uniqueness_checks', 0) < 1000:
        out.append('only %d wid uniqueness checks' % o.get('wid_uniqueness_checks', 0))
    return out


def precheck():
    from vlib.calibrate import calibrate
    return calibrate()


def shard_env(i, n):
    """some shards run with a PWD variable that does not name the current directory (a daemon started through
    subprocess with cwd=...), some with DEBUG set"""
    return {'PWD': '/tmp'} if i % 4 == 2 else ({'DEBUG': '1'} if i % 4 == 3 else None)
