"""C14 — hooks gate exactly the transitions they are documented to gate.

Engine SIM; the finite space of the four start-phase hooks is enumerated completely:
3^4 outcomes x 2^4 ignore flags = 1296 assignments x {obedient, stubborn worker} x numprocesses
{1, 2}; stop hooks and signal hooks are enumerated one pair at a time, crossed with the requests
that reach them.
"""
import itertools

from tornado import gen

from vlib import simhist
from vlib.common import CaseResult, rng_for

ID = 'C14'
LEVEL = 'fault_enumeration'
RULE = ('exhaustive: every assignment of {true,false,raise} x {ignore flag} to before_start, before_spawn, '
        'after_spawn, after_start (1296) x worker {obedient, ignores the stop signal} x numprocesses {1,2}, start '
        'by request; every assignment to (before_stop, after_stop) x {stop, restart, rm, quit} x worker type; every '
        'assignment to (before_signal, after_signal) x {signal TERM, signal USR1, signal KILL, kill request, kill '
        'request with SIGKILL, stop} x worker type; thorough adds sampled pairs across the three groups. '
        'non-trivial = at least one scripted hook was invoked; distinct = (assignment, request, worker type, '
        'outcome)')
ASSUMPTIONS = ['scripted hooks never sleep; they count their own invocations',
               'a raising before_signal without the ignore flag is ambiguous (the code always ignores failures of '
               'before/after_signal and before/after_stop; the documentation only speaks of returning False): '
               'recorded, not judged for suppression']
EXHAUSTIVE = {'quick': 'the 1296 x 2 x 2 start-phase assignments, the 36 x 4 x 2 stop-phase and 36 x 6 x 2 '
                       'signal-phase cases',
              'thorough': 'same, plus 6000 sampled cross-group pairs'}
BUDGET = {'quick': 240, 'thorough': 1500}
START_HOOKS = ['before_start', 'before_spawn', 'after_spawn', 'after_start']
OUT = ['true', 'false', 'raise']


def eff(o, ignore):
    return o == 'true' or (o == 'raise' and ignore)


def plan(tier, seed):
    out = []
    # start phase: chunks of assignments (one case = 27 assignments) to keep per-case overhead low
    allasg = list(itertools.product(itertools.product(OUT, repeat=4), itertools.product([False, True], repeat=4)))
    for i in range(0, len(allasg), 24):
        out.append({'group': 'start', 'lo': i, 'hi': min(i + 24, len(allasg))})
    pair = list(itertools.product(OUT, [False, True], OUT, [False, True]))
    for i in range(0, len(pair), 6):
        out.append({'group': 'stop', 'lo': i, 'hi': min(i + 6, len(pair))})
        out.append({'group': 'signal', 'lo': i, 'hi': min(i + 6, len(pair))})
    for i in range(0, 400 if tier == 'quick' else 100000, 20):
        out.append({'group': 'cross', 'lo': i, 'hi': i + 20, 'seed': seed})
    # a start that completes an incomplete, active watcher (respawn = false, one worker gone): the gate is the same
    for hook in ('before_spawn', 'after_spawn'):
        for outc in ('false', 'raise'):
            for ign in (False, True):
                out.append({'group': 'incomplete', 'hook': hook, 'outcome': outc, 'ignore': ign})
    # a refused `set hooks.X = <unresolvable>, true` must not switch failures of the hook that is installed to "ignored"
    for hook in ('before_start', 'after_start', 'before_spawn', 'after_spawn'):
        out.append({'group': 'refused-sethook', 'hook': hook})
    return out


def run_case(spec):
    res = CaseResult()
    if 'h' in spec:                         # concrete replay
        run_one(spec['h'], spec['req'], res)
        return res
    g = spec['group']
    if g == 'incomplete':
        incomplete_case(spec, res)
        return res
    if g == 'refused-sethook':
        refused_sethook_case(spec, res)
        return res
    if g == 'start':
        allasg = list(itertools.product(itertools.product(OUT, repeat=4), itertools.product([False, True], repeat=4)))
        for outs, igns in allasg[spec['lo']:spec['hi']]:
            hooks = {h: [o, i] for h, o, i in zip(START_HOOKS, outs, igns)}
            for stubborn in (False, True):
                for np_ in (1, 2):
                    run_one(mk(hooks, stubborn, np_, autostart=False), ['start'], res)
            # nothing to spawn: the spawn hooks have no say, before_start / after_start gate as always
            run_one(mk(hooks, False, 0, autostart=False), ['start'], res)
    elif g == 'stop':
        pair = list(itertools.product(OUT, [False, True], OUT, [False, True]))
        for o1, i1, o2, i2 in pair[spec['lo']:spec['hi']]:
            hooks = {'before_stop': [o1, i1], 'after_stop': [o2, i2]}
            for stubborn in (False, True):
                for req in ('stop', 'restart', 'rm', 'quit'):
                    run_one(mk(hooks, stubborn, 2), [req], res)
    elif g == 'signal':
        pair = list(itertools.product(OUT, [False, True], OUT, [False, True]))
        for o1, i1, o2, i2 in pair[spec['lo']:spec['hi']]:
            hooks = {'before_signal': [o1, i1], 'after_signal': [o2, i2]}
            for stubborn in (False, True):
                for req in ('signal:15', 'signal:10', 'signal:9', 'kill', 'kill:9', 'stop',
                            # a real-time signal: a number without a name in Python's signal module
                            'signal:35', 'kill:35'):
                    run_one(mk(hooks, stubborn, 2), [req], res)
                # ... and as the watcher's own stop signal
                for req in ('stop', 'restart', 'kill'):
                    run_one(mk(hooks, stubborn, 2, stop_signal=35), [req], res)
                # the same gate on the stop_children path (the worker has a child, both are signalled)
                for req in ('kill', 'kill:10', 'stop'):
                    run_one(mk(hooks, stubborn, 2, stop_children=True), [req], res)
    else:
        for j in range(spec['lo'], spec['hi']):
            rnd = rng_for(spec['seed'], 'C14-cross', j)
            names = rnd.sample(START_HOOKS + ['before_stop', 'after_stop', 'before_signal', 'after_signal'], 2)
            hooks = {n: [rnd.choice(OUT), rnd.random() < .5] for n in names}
            reqs = [rnd.choice(['start', 'stop', 'restart', 'signal:15', 'signal:9', 'kill', 'reload'])
                    for _ in range(rnd.randint(1, 3))]
            hh = mk(hooks, rnd.random() < .5, rnd.choice([1, 2, 1, 2, 0]), autostart=rnd.random() < .5)
            if rnd.random() < .3:
                hh['clock'] = [rnd.randint(1, 20), rnd.choice([-3600.0, 3600.0, 86400.0, -5.0])]
            run_one(hh, reqs, res)
    return res


def _run_world(h, coro, res, spec):
    w = simhist.new_world(h)
    nv = len(res.viol)
    try:
        w.run(lambda: coro(w))
        for v in res.viol[nv:]:
            v['spec'] = dict(spec)
        if w.breach():
            res.inconclusive.append('containment breach')
    finally:
        w.close()


def incomplete_case(spec, res):
    hook, outc, ign = spec['hook'], spec['outcome'], spec['ignore']
    # the hook lets the first two spawns through and says no (or fails) from the third on
    h = {'watchers': [{'name': 'a', 'numprocesses': 2, 'graceful_timeout': 0.2, 'respawn': False,
                       'hooks': {hook: ['%s@3' % outc, ign]}, 'beh': [{}]}]}
    effective = eff(outc, ign)

    @gen.coroutine
    def go(w):
        k = w.kernel
        yield simhist.boot(w, h)
        yield w.settle(30)
        live = k.live('w_a')
        if len(live) != 2:
            return
        k.kill(live[0], 9, sender='ext')
        yield w.advance(0.2)
        yield w.check()
        yield w.settle(30)
        rep = yield w.call('start', name='a', waiting=True)
        yield w.settle(60)
        yield w.advance(0.3)
        st = simhist.reported_status(w, 'a')
        alive = k.live('w_a')
        res.obs['incomplete_start_cases'] += 1
        if not effective:
            if st != 'stopped' or alive:
                res.violation('C14/start-not-aborted:%s[completing-an-active-watcher]' % hook,
                              'start of an active watcher that had lost a worker (respawn = false): %s is effective-false '
                              '(%s, ignore=%s) on the new spawn, but the watcher reports %s with live workers %s'
                              % (hook, outc, ign, st, alive))
        else:
            if st != 'active' or len(alive) != 2:
                res.violation('C14/start-not-completed-although-all-hooks-true[completing-an-active-watcher]',
                              '%s is effective-true (%s, ignore=%s) but the watcher reports %s with %d workers'
                              % (hook, outc, ign, st, len(alive)))
        res.nontrivial(repr(('incomplete', hook, outc, ign, st, len(alive))))
    _run_world(h, go, res, spec)
    res.sample = {'case': 'start completes an active watcher that lost a worker', 'hook': hook, 'outcome': outc,
                  'ignore': ign}


def refused_sethook_case(spec, res):
    hook = spec['hook']
    h = {'watchers': [{'name': 'a', 'numprocesses': 1, 'graceful_timeout': 0.2, 'autostart': False,
                       'hooks': {hook: ['raise', False]}, 'beh': [{}]}]}

    @gen.coroutine
    def go(w):
        k = w.kernel
        yield simhist.boot(w, h)
        yield w.settle(30)
        rep = yield w.call('set', name='a', options={'hooks.%s' % hook: 'no.such.module_zz.fn,true'})
        yield w.settle(30)
        refused = isinstance(rep, dict) and rep.get('status') == 'error'
        res.obs['refused_sethook_requests'] += int(refused)
        yield w.call('start', name='a', waiting=True)
        yield w.settle(60)
        yield w.advance(0.3)
        st = simhist.reported_status(w, 'a')
        alive = k.live('w_a')
        if refused and (st != 'stopped' or alive):
            res.violation('C14/start-not-aborted:%s[after-a-refused-set-hooks]' % hook,
                          'set hooks.%s = <unresolvable>,true was refused (%s); the installed hook raises and its '
                          'failures are not to be ignored, yet the start went through: status %s, live %s'
                          % (hook, str(rep.get('reason'))[:60], st, alive))
        res.nontrivial(repr(('refused-sethook', hook, refused, st)))
    _run_world(h, go, res, spec)
    res.sample = {'case': 'refused set hooks.X, then start', 'hook': hook}


def mk(hooks, stubborn, np_, autostart=True, stop_children=False, stop_signal=None):
    wc = {'name': 'a', 'numprocesses': np_, 'graceful_timeout': 0.3, 'autostart': autostart,
          'hooks': hooks, 'beh': [{'15': ['ignore'], '35': ['ignore']}] if stubborn else [{}]}
    if stop_signal is not None:
        wc['stop_signal'] = stop_signal
    if stop_children:
        wc['stop_children'] = True
        wc['kids'] = [{'beh': {}}]
    return {'watchers': [wc], 'stubborn': stubborn}


def run_one(h, reqs, res):
    w = simhist.new_world(h)
    nv = len(res.viol)
    try:
        w.run(lambda: _one(w, h, reqs, res))
        for v in res.viol[nv:]:
            v['spec'] = {'h': h, 'req': reqs}
        if w.breach():
            res.inconclusive.append('containment breach')
    finally:
        w.close()


def hook_events(w):
    ev = {}
    for t, topic, msg in w.events():
        parts = topic.split('.')
        if len(parts) >= 3 and parts[2] in ('hook_success', 'hook_failure'):
            ev.setdefault(msg.get('name'), []).append(parts[2])
    return ev


@gen.coroutine
def _one(w, h, reqs, res):
    k = w.kernel
    conf = h['watchers'][0]
    hooks = conf['hooks']
    np_ = conf['numprocesses']
    stub = 'stubborn' if h['stubborn'] else 'obedient'
    yield simhist.boot(w, h)
    yield w.settle(30)
    tag = 'w_a'
    E = {n: eff(o, i) for n, (o, i) in hooks.items()}
    gating = START_HOOKS if np_ > 0 else [n for n in START_HOOKS if n in ('before_start', 'after_start')]
    started_ok = all(E.get(n, True) for n in gating)
    for req in reqs:
        if w.stalled is not None:
            break
        if h.get('clock'):
            coff, delta = h['clock']
            k.inject[k.calls + coff] = lambda kern, delta=delta: setattr(w.clock, 'wall_offset', w.clock.wall_offset + delta)
        l0 = len(k.log)
        live0 = k.live(tag)
        status0 = simhist.reported_status(w, 'a')
        if status0 is None:
            break
        name, _, arg = req.partition(':')
        if name == 'start':
            rep = yield w.call('start', name='a', waiting=True)
            yield w.settle(60)
            yield w.advance(0.05)
            if w.stalled is not None:
                break
            st = simhist.reported_status(w, 'a')
            live = k.live(tag)
            if status0 == 'stopped':
                res.obs['starts_judged'] += 1
                if started_ok:
                    if st != 'active' or len(live) != np_:
                        res.violation('C14/start-not-completed-although-all-hooks-true',
                                      'all gating hooks effective-true %s but status=%s live=%d/%d'
                                      % (hooks, st, len(live), np_))
                else:
                    culprit = [n for n in gating if not E.get(n, True)][0]
                    if st != 'stopped':
                        res.violation('C14/start-not-aborted:' + culprit, 'hook %s is effective-false (%s) but the '
                                      'watcher reports %s' % (culprit, hooks[culprit], st))
                    if live:
                        mech = ''
                        failed = {e[4].get('pid') for e in w.hook_log if e[2] == 'after_spawn' and e[3] != 'true'}
                        if set(live) <= failed and h['stubborn']:
                            mech = '[after_spawn-failed,worker-ignores-stop-signal]'
                        res.violation('C14/aborted-start-leaves-worker-alive' + (mech or ':' + culprit),
                                      'start aborted by %s (%s) but worker(s) %s are still alive, watcher %s'
                                      % (culprit, hooks[culprit], live, st))
        elif name in ('stop', 'restart', 'rm', 'quit'):
            props = {'waiting': True}
            if name != 'quit':
                props['name'] = 'a'
            rep = yield w.call(name, **props)
            yield w.settle(60)
            yield w.advance(0.05)
            if w.stalled is not None:
                break
            res.obs['stops_judged'] += 1
            old = sorted(set(live0) & set(k.live(tag)))
            if old:
                res.violation('C14/stop-prevented:' + name, '%s with hooks %s left old workers %s alive'
                              % (name, hooks, old))
            if name == 'stop':
                st = simhist.reported_status(w, 'a')
                if st != 'stopped' or k.live(tag):
                    res.violation('C14/stop-prevented:stop', 'after stop with hooks %s status=%s live=%s'
                                  % (hooks, st, k.live(tag)))
            if name == 'restart' and status0 == 'active' and started_ok:
                st = simhist.reported_status(w, 'a')
                if st != 'active':
                    res.violation('C14/restart-not-active', 'restart with hooks %s ended %s' % (hooks, st))
            if name in ('rm', 'quit'):
                break
        elif name == 'signal':
            signum = int(arg)
            mid = w.req('signal', name='a', signum=signum)
            rep = w.reply(mid)
            got = {}
            for e in k.log[l0:]:
                if e[1] == 'signal' and e[4] == 'circus':
                    got.setdefault(e[2], []).append(e[3])
            res.obs['signal_requests_judged'] += 1
            bs = hooks.get('before_signal')
            amb = bs is not None and bs[0] == 'raise' and not bs[1]
            suppress = bs is not None and bs[0] == 'false' and signum != 9
            for pid in live0:
                if amb and signum != 9:
                    res.ambiguous['before_signal raises without ignore flag'] += 1
                    continue
                if suppress and got.get(pid):
                    res.violation('C14/signal-not-suppressed', 'before_signal is false (%s) but signal %d reached %d'
                                  % (bs, signum, pid))
                if not suppress and got.get(pid) != [signum]:
                    res.violation('C14/signal-withheld:%s' % ('SIGKILL' if signum == 9 else 'other'),
                                  'signal %d to %d: kernel saw %s (before_signal %s)' % (signum, pid, got.get(pid), bs))
            yield w.settle(30)
            yield w.advance(1.0)
            yield w.check()
            yield w.settle(30)
        elif name == 'kill':
            props = {'name': 'a', 'waiting': True}
            if arg:
                props['signum'] = int(arg)
            rep = yield w.call('kill', **props)
            yield w.settle(60)
            yield w.advance(0.05)
            if w.stalled is not None:
                break
            res.obs['kill_requests_judged'] += 1
            bs = hooks.get('before_signal')
            stopsig = int(arg) if arg else int(conf.get('stop_signal', 15))
            for pid in live0:
                sigs = [e[3] for e in k.log[l0:] if e[1] == 'signal' and e[2] == pid and e[4] == 'circus']
                if bs is not None and bs[0] == 'false' and stopsig != 9 and stopsig in sigs[:1]:
                    res.violation('C14/signal-not-suppressed', 'before_signal false but stop signal %d reached %d (%s)'
                                  % (stopsig, pid, sigs))
                if k.procs[pid].state == 'running':
                    res.violation('C14/kill-prevented-by-hook', 'kill request with hooks %s left %d alive (signals %s)'
                                  % (hooks, pid, sigs))
            yield w.advance(1.0)
            yield w.check()
            yield w.settle(30)
        elif name == 'reload':
            yield w.call('reload', name='a', waiting=True)
            yield w.settle(60)
    if w.stalled is not None:
        res.obs['stalled(C05 owns)'] += 1
    # call <-> event bijection
    ev = hook_events(w)
    calls = {}
    for (wn, hn), c in w.hook_calls.items():
        calls[hn] = calls.get(hn, 0) + c
    for hn in set(calls) | set(ev):
        res.obs['hook_invocations'] += calls.get(hn, 0)
        if calls.get(hn, 0) != len(ev.get(hn, [])):
            res.violation('C14/hook-call-event-mismatch:' + hn, 'hook %s invoked %d times, %d hook events %s'
                          % (hn, calls.get(hn, 0), len(ev.get(hn, [])), ev.get(hn)))
        o = hooks.get(hn, [None])[0]
        kinds = set(ev.get(hn, []))
        if o == 'raise' and 'hook_success' in kinds:
            res.violation('C14/raise-reported-as-success:' + hn, 'hook %s raised but a hook_success event was sent' % hn)
        if o in ('true', 'false') and 'hook_failure' in kinds:
            res.violation('C14/return-reported-as-failure:' + hn, 'hook %s returned but hook_failure was sent' % hn)
    if sum(calls.values()):
        res.nontrivial(repr((sorted(hooks.items()), reqs, stub, conf['numprocesses'],
                             simhist.reported_status(w, 'a'), len(k.live(tag)))))
        if res.sample is None:
            res.sample = {'hooks': hooks, 'requests': reqs, 'worker': stub, 'numprocesses': np_,
                          'hook_calls': {'%s' % hn: c for hn, c in calls.items()}, 'final_live': k.live(tag)}
    res.obs['runs'] += 1


def starved(merged, tier):
    o = merged['obs']
    out = []
    if o.get('starts_judged', 0) < 5184:
        out.append('only %d of the 5184 start-phase runs were judged' % o.get('starts_judged', 0))
    if o.get('stops_judged', 0) < 250:
        out.append('only %d stop-phase runs judged' % o.get('stops_judged', 0))
    if o.get('signal_requests_judged', 0) < 200:
        out.append('only %d signal requests judged' % o.get('signal_requests_judged', 0))
    return out


def precheck():
    from vlib.calibrate import calibrate
    return calibrate()


def shard_env(i, n):
    """one shard in four runs the daemon code with DEBUG set in its environment (circus then wraps its methods in
    tracing decorators at import time: a different code path through every call)"""
    return {'DEBUG': '1'} if i % 4 == 3 else None
