"""LIVE histories: a real circusd (under strace), real probe workers, a real SUB socket; the run is recorded
once and judged by several properties (C02, C03, C04, C09)."""
import glob
import json
import os
import re
import time

from vlib import live


def gen_spec(rnd, nsteps=6, stop_heavy=False):
    ws = []
    for i, name in enumerate(rnd.sample(['a', 'b'], rnd.randint(1, 2))):
        kind = rnd.choice(['obedient', 'slow', 'stubborn', 'slow'] if not stop_heavy else
                          ['stubborn', 'stubborn', 'slow', 'obedient'])
        ws.append({'name': name, 'np': rnd.randint(1, 3), 'gt': rnd.choice([0.6, 1.0]), 'kind': kind,
                   'stop_signal': rnd.choice(['TERM', 'TERM', 'INT', 'USR1'])})
    steps = []
    for _ in range(nsteps):
        k = rnd.choice(['incr', 'decr', 'extkill', 'extterm', 'restart', 'reload', 'reloadseq', 'stop-start', 'kill',
                        'extkill'])
        if stop_heavy and rnd.random() < .5:
            # stop, then things that must not start a worker for a stopped watcher, then start again
            k = rnd.choice(['stop-poke-start', 'stop-poke-start', 'stop-start', 'kill-then-stop-start'])
        steps.append([k, rnd.choice(ws)['name'], rnd.randint(0, 3)])
    return {'watchers': ws, 'steps': steps}


SIGNUM = {'TERM': 15, 'INT': 2, 'USR1': 10}


def ini_for(d, spec):
    txt = d.header(check_delay=0.3)
    for w in spec['watchers']:
        sig = SIGNUM[w['stop_signal']]
        ws = {'log': '@LOG@', 'tagw': w['name'], 'trap': [sig]}
        if w['kind'] == 'slow':
            ws['die'] = {str(sig): 0.25}
        elif w['kind'] == 'stubborn':
            ws['ignore'] = [sig]
        else:
            ws['die'] = {str(sig): 0.0}
        txt += ('[watcher:%s]\ncmd = %s\nnumprocesses = %d\ngraceful_timeout = %s\nstop_signal = %s\nautostart = False\n'
                'copy_env = True\n\n' % (w['name'], live.worker_cmd(ws), w['np'], w['gt'], w['stop_signal']))
    if spec.get('on_demand') == 'trigger':
        # an on-demand watcher that IS contacted at the end of the history: three workers, spawned 1 s apart, the
        # first one accepts the connection
        txt += ('[socket:od]\npath = @DIR@/od.sock\n\n[watcher:od]\ncmd = %s --fd $(circus.sockets.od)\n'
                'use_sockets = True\non_demand = True\nnumprocesses = 3\nwarmup_delay = 1\ncopy_env = True\n'
                'graceful_timeout = 0.5\n\n' % live.worker_cmd({'log': '@LOG@', 'tagw': 'od', 'accept': True}))
    elif spec.get('on_demand'):
        # an idle on-demand watcher: nothing is spawned until somebody connects to its socket; every periodic
        # check looks at that socket
        txt += ('[socket:od]\nhost = 127.0.0.1\nport = 0\n%s\n[watcher:od]\ncmd = %s --fd $(circus.sockets.od)\n'
                'use_sockets = True\non_demand = True\nnumprocesses = 1\ncopy_env = True\ngraceful_timeout = 0.5\n\n'
                % ('type = SOCK_DGRAM\n' if spec['on_demand'] == 'dgram' else '',
                   live.worker_cmd({'log': '@LOG@', 'tagw': 'od'})))
    return txt


def worker_table(d):
    """{pid: (watcher tag, state, starttime)} for the daemon's direct children that are probe workers"""
    out = {}
    for pid, state, stt in d.children():
        try:
            cmd = open('/proc/%d/cmdline' % pid, 'rb').read().decode('utf8', 'replace')
        except OSError:
            cmd = ''
        m = re.search(r'"tagw": "(\w+)"', cmd)
        out[pid] = (m.group(1) if m else None, state, stt)
    return out


def od_trigger(d, rec):
    """somebody connects to the socket of the on-demand watcher; `stop` arrives while its start-up sleeps between the
    first and the second worker; then nothing is sent for 2.5 s"""
    import socket
    tr = {'first_seen': None}
    rec['od_trigger'] = tr
    c = socket.socket(socket.AF_UNIX)
    try:
        c.connect(os.path.join(d.dir, 'od.sock'))
        t_end = time.time() + 10
        while time.time() < t_end and tr['first_seen'] is None:
            if glob.glob(os.path.join(d.logdir, '*.accepted')):
                tr['first_seen'] = time.time()
            time.sleep(0.02)
        if tr['first_seen'] is None:
            return
        time.sleep(0.15)
        rs = d.call('stop', name='od', waiting=True, timeout=20)
        tr['stop_status'] = rs.get('status')
        tr['stop_took'] = time.time() - tr['first_seen']
        seen = {}
        t_end = time.time() + 2.5
        while time.time() < t_end:
            for p, v in worker_table(d).items():
                if v[0] == 'od':
                    seen[p] = v
            time.sleep(0.05)
        tr['after'] = seen
        tr['status_after'] = d.call('status', name='od').get('status')
    finally:
        c.close()


class _DaemonDead(Exception):
    pass


def run(spec, strace=True, probe=False):
    """-> record dict; raises nothing for daemon problems: rec['problem'] says what went wrong"""
    import threading
    import zmq
    rec = {'points': [], 'events': [], 'steps_done': [], 'problem': None, 'kills': [], 'ext': [], 'calls': [],
           'probes': []}
    d = live.Daemon('', strace=strace)
    orig_call = d.call

    def timed_call(command, timeout=5.0, **props):
        t0 = time.time()
        r = orig_call(command, timeout=timeout, **props)
        tries = 0
        while r.get('status') == 'error' and 'arbiter is already running' in str(r.get('reason')) and tries < 100:
            # refused because the periodic check (or an operation sent without waiting) holds the slot: what a client
            # does is try again; C10 owns the refusal itself
            tries += 1
            rec['conflict_retries'] = rec.get('conflict_retries', 0) + 1
            time.sleep(0.1)
            r = orig_call(command, timeout=timeout, **props)
        if command not in ('status', 'list', 'numprocesses', 'stats'):
            rec['calls'].append((command, props.get('name'), t0, time.time() - t0, r.get('status'), str(r.get('reason'))[:80],
                                 timeout))
        if r.get('status') == 'CallError' and 'Timed out' in str(r.get('reason')) and timeout >= 15 and not rec.get('dead'):
            # the daemon does not answer any more: the rest of the history would only wait for more timeouts
            rec['dead'] = '%s %s unanswered after %.0fs' % (command, props.get('name'), timeout)
            if command == 'stop':
                rec.setdefault('stops', []).append((props.get('name'), time.time(), 'CallError: Timed out',
                                                    dict(worker_table(d)), []))
            raise _DaemonDead()
        return r
    d.call = timed_call
    stop_probe = threading.Event()

    def prober():
        # a second client asking a read-only question every 100 ms for the whole history
        from circus.client import CircusClient
        from circus.exc import CallError
        c = CircusClient(endpoint=d.endpoint, timeout=20.0)
        try:
            while not stop_probe.is_set():
                t0 = time.time()
                try:
                    r = c.call({'command': 'numwatchers', 'properties': {}})
                    rec['probes'].append((t0, time.time() - t0, r.get('status')))
                except CallError as e:
                    rec['probes'].append((t0, time.time() - t0, 'CallError: %s' % e))
                    break
                stop_probe.wait(0.1)
        finally:
            c.stop()
    pth = threading.Thread(target=prober, daemon=True)
    d.ini = ini_for(d, spec).replace('@DIR@', d.dir).replace('@LOG@', d.logdir)
    with open(d.ini_path, 'w') as f:
        f.write(d.ini)
    ctx = zmq.Context()
    sub = ctx.socket(zmq.SUB)
    sub.setsockopt(zmq.SUBSCRIBE, b'watcher.')
    sub.setsockopt(zmq.LINGER, 0)
    try:
        d.start()
        if not d.wait_ready(20):
            rec['problem'] = 'daemon not ready: ' + d.output()[-300:]
            return rec
        sub.connect(d.pubsub)
        # subscription handshake: repeat a harmless add until its event is seen
        seen = False
        for k in range(40):
            d.call('add', name='sentinel%d' % k, cmd='true', options={'autostart': False} if False else {})
            if sub.poll(150):
                while sub.poll(0):
                    sub.recv_multipart()
                seen = True
                d.call('rm', name='sentinel%d' % k, nostop=True)
                break
            d.call('rm', name='sentinel%d' % k, nostop=True)
        if not seen:
            rec['problem'] = 'subscription handshake failed'
            return rec
        time.sleep(0.2)
        while sub.poll(0):
            sub.recv_multipart()
        rec['t0'] = time.time()

        def drain():
            while sub.poll(0):
                topic, msg = sub.recv_multipart()
                try:
                    rec['events'].append((time.time(), topic.decode(), json.loads(msg)))
                except ValueError:
                    pass

        def quiesce(label):
            # nothing in flight: every watcher reports active/stopped twice in a row, then two check periods
            ok = 0
            t_end = time.time() + 20
            while time.time() < t_end and ok < 2:
                st = d.call('status').get('statuses', {})
                if st and all(v in ('active', 'stopped') for v in st.values()):
                    ok += 1
                else:
                    ok = 0
                time.sleep(0.15)
                drain()
            time.sleep(0.9)
            drain()
            pt = {'label': label, 't': time.time(), 'reported': {}, 'proc': worker_table(d)}
            for w in spec['watchers']:
                n = w['name']
                pt['reported'][n] = {
                    'pids': d.call('list', name=n).get('pids'),
                    'numprocesses': d.call('numprocesses', name=n).get('numprocesses'),
                    'status': d.call('status', name=n).get('status'),
                    'stats': sorted(int(x) for x in (d.call('stats', name=n).get('info') or {})),
                }
            pt['proc2'] = worker_table(d)
            rec['points'].append(pt)

        try:
            if probe:
                pth.start()
            for w in spec['watchers']:
                d.call('start', name=w['name'], waiting=True, timeout=15)
            quiesce('after start')
            for st in spec['steps']:
                kind, name, idx = st
                pids = d.call('list', name=name).get('pids') or []
                t = time.time()
                if kind == 'incr':
                    d.call('incr', name=name, waiting=True, timeout=15)
                elif kind == 'decr':
                    d.call('decr', name=name, waiting=True, timeout=15)
                elif kind in ('extkill', 'extterm') and pids:
                    p = pids[idx % len(pids)]
                    sig = 9 if kind == 'extkill' else 15
                    try:
                        os.kill(p, sig)
                        rec['ext'].append((time.time(), p, sig, name))
                    except OSError:
                        pass
                elif kind == 'restart':
                    d.call('restart', name=name, waiting=True, timeout=20)
                elif kind == 'reload':
                    d.call('reload', name=name, waiting=True, timeout=20)
                elif kind == 'reloadseq':
                    d.call('reload', name=name, sequential=True, waiting=True, timeout=30)
                elif kind in ('stop-start', 'stop-poke-start', 'kill-then-stop-start'):
                    if kind == 'kill-then-stop-start':
                        d.call('kill', name=name)           # not waiting: the stop arrives inside its grace period
                        time.sleep(0.1)
                    rs = d.call('stop', name=name, waiting=True, timeout=30)
                    rec.setdefault('stops', []).append((name, time.time(), rs.get('status'), dict(worker_table(d)), pids))
                    if kind == 'stop-poke-start':
                        # none of these may start a worker for the stopped watcher
                        for poke in (('incr', {}), ('decr', {}), ('set', {'options': {'numprocesses': 2}}),
                                     ('set', {'options': {'graceful_timeout': 0.7}})):
                            if (idx + len(poke[0])) % 2 == 0:
                                d.call(poke[0], name=name, **poke[1])
                        for p in pids[:1]:
                            try:
                                os.kill(p, 0)
                            except OSError:
                                pass
                    quiesce('after stop %s' % name)
                    d.call('start', name=name, waiting=True, timeout=20)
                elif kind == 'kill':
                    d.call('kill', name=name, waiting=True, timeout=20)
                rec['steps_done'].append((t, kind, name))
                quiesce('after %s %s' % (kind, name))
            if spec.get('on_demand') == 'trigger':
                od_trigger(d, rec)
        except _DaemonDead:
            pass
        drain()
        rec['kills'] = live.kill_lines(d.strace_lines())
        rec['worker_signals'] = {}
        for f in os.listdir(d.logdir):
            if f.endswith('.sig'):
                rec['worker_signals'][int(f[:-4])] = [ln.split() for ln in open(os.path.join(d.logdir, f)).read().splitlines()]
        rec['daemon_pid'] = d.pid
        stop_probe.set()
        if probe:
            pth.join(25)
        if not rec.get('dead'):
            try:
                d.call('quit', waiting=True, timeout=20)
            except _DaemonDead:
                pass
            d.wait_exit(25)
    finally:
        stop_probe.set()
        sub.close()
        ctx.destroy(linger=0)
        d.cleanup()
    return rec


# ------------------------------------------------------------------ oracles over a record
def judge_accounting(rec, res, key_prefix='C04'):
    """C04: at every quiescent point reported processes == live children; no zombie"""
    for pt in rec['points']:
        for n, rp in pt['reported'].items():
            # a process counts as a live child when both /proc snapshots (before and after the queries) agree
            live1 = {p for p, (tag, st, _) in pt['proc'].items() if tag == n and st != 'Z'}
            live2 = {p for p, (tag, st, _) in pt['proc2'].items() if tag == n and st != 'Z'}
            if live1 != live2:
                res.obs['live_points_unstable(not judged)'] += 1
                continue
            res.obs['live_accounting_points'] += 1
            pids = set(rp['pids'] or [])
            if pids != live1:
                res.violation('%s/live:list-differs-from-proc' % key_prefix,
                              '%s: watcher %s lists %s, /proc shows live children %s' % (pt['label'], n, sorted(pids), sorted(live1)))
            if rp['numprocesses'] != len(live1):
                res.violation('%s/live:numprocesses-differs-from-proc' % key_prefix,
                              '%s: watcher %s numprocesses=%s, /proc shows %d' % (pt['label'], n, rp['numprocesses'], len(live1)))
            if set(rp['stats']) != live1:
                res.violation('%s/live:stats-differs-from-proc' % key_prefix,
                              '%s: watcher %s stats %s, /proc %s' % (pt['label'], n, rp['stats'], sorted(live1)))
            if rp['status'] in ('starting', 'stopping'):
                res.violation('%s/live:transient-status' % key_prefix, '%s: watcher %s status %s' % (pt['label'], n, rp['status']))
            if rp['status'] == 'stopped' and live1:
                res.violation('%s/live:stopped-with-live-children' % key_prefix,
                              '%s: watcher %s stopped, live children %s' % (pt['label'], n, sorted(live1)))
        z1 = {p for p, (tag, st, _) in pt['proc'].items() if st == 'Z'}
        z2 = {p for p, (tag, st, _) in pt['proc2'].items() if st == 'Z'}
        if z1 & z2:
            res.violation('%s/live:zombie-at-quiescent-point' % key_prefix, '%s: zombie children %s' % (pt['label'], sorted(z1 & z2)))


def judge_events(rec, res):
    """C09: the reconstruction from the SUB socket equals the /proc live set at quiescent points; outside deaths
    carry the exact exit_code"""
    ev = rec['events']
    pos = 0
    up = {}
    spawned, reaped = {}, {}
    for pt in rec['points']:
        while pos < len(ev) and ev[pos][0] <= pt['t']:
            t, topic, msg = ev[pos]
            pos += 1
            parts = topic.split('.')
            if len(parts) < 3:
                continue
            wn, kind = parts[1], parts[2]
            pid = msg.get('process_pid')
            s = up.setdefault(wn, set())
            if kind == 'spawn':
                if pid in s:
                    res.violation('C09/live:duplicate-spawn-event', 'pid %s' % pid)
                spawned[pid] = spawned.get(pid, 0) + 1
                s.add(pid)
            elif kind == 'reap':
                if pid in reaped:
                    res.violation('C09/live:duplicate-reap-event', 'pid %s' % pid)
                if pid not in spawned:
                    res.violation('C09/live:reap-without-spawn', 'pid %s' % pid)
                reaped.setdefault(pid, []).append(msg.get('exit_code'))
                s.discard(pid)
            elif kind == 'kill':
                s.discard(pid)
        for n in pt['reported']:
            live1 = {p for p, (tag, st, _) in pt['proc'].items() if tag == n and st != 'Z'}
            live2 = {p for p, (tag, st, _) in pt['proc2'].items() if tag == n and st != 'Z'}
            if live1 != live2:
                continue
            res.obs['live_reconstruction_points'] += 1
            if up.get(n, set()) != live1:
                res.violation('C09/live:reconstruction-differs-from-proc',
                              '%s: events say %s alive for %s, /proc shows %s' % (pt['label'], sorted(up.get(n, set())), n, sorted(live1)))
    # outside deaths: exit_code = -signal (only when the daemon had not signalled the pid itself)
    daemon_targets = {k[1] for k in rec['kills']}
    for t, pid, sig, name in rec['ext']:
        if pid in daemon_targets:
            res.ambiguous['live: outside kill racing a daemon-sent signal'] += 1
            continue
        got = reaped.get(pid)
        res.obs['live_outside_deaths_judged'] += 1
        if not got:
            res.violation('C09/live:missing-reap-event', 'worker %d of %s was killed from outside with signal %d and no reap '
                          'event was published' % (pid, name, sig))
        elif got[0] != -sig:
            # a worker with a handler for SIGTERM may exit differently; only SIGKILL is unambiguous
            if sig == 9:
                res.violation('C09/live:wrong-exit-code', 'worker %d killed with SIGKILL, reap event says %s' % (pid, got[0]))
            else:
                res.ambiguous['live: outside SIGTERM handled by the worker'] += 1


def judge_kill_timing(rec, res, spec):
    """C03 from the kernel's own record (strace of the daemon): per pid, first signal = stop signal; SIGKILL not
    before graceful_timeout - 0.05 s and, for a stubborn worker, not later than graceful_timeout + 0.1 + 0.35 s"""
    by_pid = {}
    for t, pid, sig, ret in rec['kills']:
        if pid <= 0 or ret != 0:
            continue
        by_pid.setdefault(pid, []).append((t, sig))
    tags = {}
    for pt in rec['points']:
        for p, (tag, st, _) in list(pt['proc'].items()) + list(pt['proc2'].items()):
            if tag:
                tags[p] = tag
    conf = {w['name']: w for w in spec['watchers']}
    for pid, sigs in by_pid.items():
        w = conf.get(tags.get(pid))
        if w is None:
            continue
        first = sigs[0][1]
        want = 'SIG' + w['stop_signal']
        res.obs['live_episodes'] += 1
        if first != want and first != 'SIGKILL':
            res.violation('C03/live:first-signal', 'daemon sent %s first to worker %d, stop_signal is %s' % (first, pid, want))
        kills = [t for t, s in sigs if s == 'SIGKILL']
        if first == want and kills:
            dt = kills[0] - sigs[0][0]
            res.hist['live_sigkill_delay_minus_gt_ms'][int((dt - w['gt']) * 1000) // 50 * 50] += 1
            if dt < w['gt'] - 0.05:
                res.violation('C03/live:early-sigkill', 'worker %d: SIGKILL %.3fs after %s, graceful_timeout %s' % (pid, dt, want, w['gt']))
            if w['kind'] == 'stubborn' and dt > w['gt'] + 0.1 + 0.6:
                res.inconclusive.append('live: SIGKILL %.2fs late (wall clock, loaded machine?)' % (dt - w['gt']))
        if first == want and not kills and w['kind'] == 'stubborn':
            res.violation('C03/live:missing-sigkill', 'worker %d ignores %s but strace shows no SIGKILL from the daemon (signals: %s)'
                          % (pid, want, [s for _, s in sigs]))
        if first == want and kills and w['kind'] == 'obedient':
            res.violation('C03/live:sigkill-after-exit', 'worker %d exits at once on %s yet the daemon sent SIGKILL' % (pid, want))


def judge_stop(rec, res, spec):
    """C02 on the real process table: when the stop request has been answered, every worker the watcher had is gone
    (not even a zombie child of the daemon) and the watcher reports stopped with zero processes; nothing starts a
    worker for it until the start request"""
    for name, t, status, table, pids_before in rec.get('stops', []):
        res.obs['live_stops_judged'] += 1
        if status != 'ok':
            res.violation('C02/live:stop-not-answered-ok', 'stop %s answered %s' % (name, status))
            continue
        left = {p: v for p, v in table.items() if v[0] == name}
        if left:
            res.violation('C02/live:worker-present-when-stop-answered',
                          'right after stop %s was answered ok the daemon still has children %s (pid: tag, state, '
                          'starttime)' % (name, left))
    tr = rec.get('od_trigger')
    if tr is not None:
        if tr['first_seen'] is None:
            res.inconclusive.append('live: the on-demand watcher did not start within 10 s of a connection')
        elif tr.get('stop_status') == 'ok' and tr.get('stop_took', 9) < 0.85:
            # the stop was answered inside the warm-up sleep of the socket-triggered start
            res.obs['live_stops_inside_an_on_demand_startup_judged'] += 1
            if tr['after'] or tr['status_after'] != 'stopped':
                res.violation('C02/live:spawn-after-stop-of-a-starting-on-demand-watcher',
                              'stop od was answered ok %.2fs after its first worker came up (start-up sleeping between two '
                              'spawns); in the 2.5 s after that, with no request and no connection: workers %s, status %s'
                              % (tr['stop_took'], tr['after'], tr['status_after']))
        else:
            res.obs['live_on_demand_trigger_not_in_window(not judged)'] += 1
    if spec.get('on_demand') and spec['on_demand'] != 'trigger':
        # nobody ever talks to the socket of the on-demand watcher: no periodic check may start it
        for pt in rec['points']:
            res.obs['live_on_demand_points_judged'] += 1
            here = {p: v for p, v in list(pt['proc'].items()) + list(pt.get('proc2', {}).items()) if v[0] == 'od'}
            rp = pt['reported'].get('od')
            if here or (rp is not None and (rp['pids'] or rp['status'] != 'stopped')):
                res.violation('C02/live:on-demand-watcher-started-without-a-socket-event',
                              'at "%s" the idle on-demand watcher (socket %s, never contacted) has workers %s, reports %s'
                              % (pt['label'], spec['on_demand'], here, rp))
                break
    for pt in rec['points']:
        if not pt['label'].startswith('after stop '):
            continue
        n = pt['label'][len('after stop '):]
        rp = pt['reported'].get(n)
        if rp is None:
            continue
        res.obs['live_stopped_windows_judged'] += 1
        here = {p for p, (tag, st, _) in list(pt['proc'].items()) + list(pt['proc2'].items()) if tag == n}
        if rp['status'] != 'stopped' or rp['pids'] or rp['numprocesses'] not in (0, None) or here:
            res.violation('C02/live:not-stopped-until-start',
                          'about 1.5 s (5 check periods) after stop %s, with incr/decr/set requests in between: status %s, '
                          'pids %s, numprocesses %s, children in /proc %s'
                          % (n, rp['status'], rp['pids'], rp['numprocesses'], sorted(here)))


def judge_latency(rec, res, spec):
    """C05 on the wall clock, with thresholds far above every bound of the workload (graceful_timeout <= 1 s, at most
    4 workers, warmup 0): read-only probes are answered at once even during long operations, waiting requests end"""
    gaps = [dt for _, dt, st in rec['probes']]
    res.obs['live_probes'] += len(gaps)
    if gaps:
        res.hist['live_probe_latency_ms'][int(max(gaps) * 1000) // 100 * 100] += 1
    for t0, dt, st in rec['probes']:
        if st != 'ok':
            res.violation('C05/live:read-only-probe-unanswered', 'numwatchers probe sent %.1fs into the history got %s '
                          'after %.1fs' % (t0 - rec.get('t0', t0), st, dt))
            break
        if dt > 12.0:
            res.violation('C05/live:read-only-probe-delayed', 'numwatchers probe answered after %.1fs (operations in '
                          'this workload are bounded by a few seconds)' % dt)
            break
        if dt > 4.0:
            res.inconclusive.append('live: a read-only probe took %.1fs (loaded machine?)' % dt)
            break
    for cmd, name, t0, dt, st, reason, timeout in rec['calls']:
        res.obs['live_calls'] += 1
        res.hist['live_call_seconds:' + cmd][int(dt)] += 1
        if st == 'CallError' and 'Timed out' in reason:
            res.violation('C05/live:request-never-answered', '%s %s was not answered within %.0fs (graceful_timeout <= 1 s, '
                          '<= 4 workers)' % (cmd, name, timeout))
