#!/bin/sh
# Run once in /verif after a fresh restore, offline.  Nothing is downloaded or installed:
# the machinery needs only /venv/bin/python (with the repository's own dependencies), strace and /proc.
set -e
cd "$(dirname "$0")"
export PYTHONDONTWRITEBYTECODE=1 PYTHONHASHSEED=0
/venv/bin/python -c "import sys; sys.path.insert(0,'.'); import compileall, vlib; ok = compileall.compile_dir('vlib', quiet=1, legacy=False, ddir='vlib', optimize=0, workers=1) ; sys.exit(0 if ok else 1)" >/dev/null 2>&1 || { echo "vlib does not byte-compile"; exit 1; }
find vlib -name __pycache__ -type d -exec rm -rf {} + 2>/dev/null || true
/venv/bin/python -m vlib.calibrate
/venv/bin/python tools/smoke.py
echo "setup ok"
